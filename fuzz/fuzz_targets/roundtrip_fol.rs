#![no_main]
//! C15 oracle inside the target.
use anthem::syntax_tree::fol::sigma_0 as fol;
use libfuzzer_sys::fuzz_target;

fn check<N: std::str::FromStr + std::fmt::Display + PartialEq + std::fmt::Debug>(text: &str, kind: &str) {
    if let Ok(t1) = text.parse::<N>() {
        let s1 = t1.to_string();
        let Ok(t2) = s1.parse::<N>() else { panic!("C15 ({kind}): own output rejected: {s1:?} (from {text:?})") };
        assert!(t1 == t2, "C15 ({kind}): tree changed: {text:?} -> {s1:?}");
        assert!(t2.to_string() == s1, "C15 ({kind}): print not stable: {s1:?}");
    }
}

fuzz_target!(|data: &[u8]| {
    let Ok(text) = std::str::from_utf8(data) else { return };
    if text.matches('(').count() > 200 || text.matches("not").count() > 200 || text.matches('-').count() > 200 {
        return;
    }
    check::<fol::Theory>(text, "theory");
    check::<fol::Specification>(text, "specification");
    check::<fol::UserGuide>(text, "user guide");
});
