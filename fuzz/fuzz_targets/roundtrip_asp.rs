#![no_main]
//! C14 oracle inside the target: accepted text -> print -> parse gives the same tree, print stable.
use anthem::syntax_tree::asp::mini_gringo as asp;
use libfuzzer_sys::fuzz_target;

fn nesting_ok(s: &str) -> bool {
    // deep nesting is a recorded known finding (stack exhaustion): keep the campaign behind it
    let mut depth = 0usize;
    let mut run = 0usize;
    for ch in s.chars() {
        match ch {
            '(' => depth += 1,
            ')' => depth = depth.saturating_sub(1),
            '-' => {
                run += 1;
                if run > 200 {
                    return false;
                }
                continue;
            }
            _ => {}
        }
        if depth > 200 {
            return false;
        }
        if ch != ' ' {
            run = 0;
        }
    }
    true
}

fuzz_target!(|data: &[u8]| {
    let Ok(text) = std::str::from_utf8(data) else { return };
    if !nesting_ok(text) {
        return;
    }
    if let Ok(t1) = text.parse::<asp::Program>() {
        let s1 = t1.to_string();
        let t2 = s1.parse::<asp::Program>().unwrap_or_else(|_| panic!("C14: own output rejected: {s1:?} (from {text:?})"));
        assert!(t1 == t2, "C14: tree changed: {text:?} -> {s1:?}");
        assert!(t2.to_string() == s1, "C14: print not stable: {s1:?}");
    }
    if let Ok(t1) = text.parse::<asp::Term>() {
        let s1 = t1.to_string();
        let t2 = s1.parse::<asp::Term>().unwrap_or_else(|_| panic!("C14: own output rejected: {s1:?} (from {text:?})"));
        assert!(t1 == t2, "C14: tree changed: {text:?} -> {s1:?}");
    }
});
