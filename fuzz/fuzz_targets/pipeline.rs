#![no_main]
//! C16: every front end and the cheap later stages on arbitrary bytes; any panic is a finding.
use anthem::syntax_tree::asp::mini_gringo as asp;
use anthem::syntax_tree::fol::sigma_0 as fol;
use anthem::translating::classical_reduction::completion::Completion as _;
use anthem::translating::classical_reduction::gamma::Gamma as _;
use anthem::translating::formula_representation::mu::Mu as _;
use anthem::translating::formula_representation::natural::Natural as _;
use anthem::translating::formula_representation::tau_star::TauStar as _;
use libfuzzer_sys::fuzz_target;

fuzz_target!(|data: &[u8]| {
    let Ok(text) = std::str::from_utf8(data) else { return };
    if text.len() > 4096 || text.matches('(').count() > 60 || text.matches('-').count() > 40 || text.matches("not").count() > 60 {
        return;
    }
    if let Ok(p) = text.parse::<asp::Program>() {
        let _ = p.to_string();
        let width: usize = p.rules.iter().map(|r| r.terms().len() + r.variables().len()).sum();
        let tau = p.clone().tau_star();
        let _ = tau.to_string();
        let _ = p.clone().natural();
        let mu = p.clone().mu();
        let _ = mu.clone().gamma().to_string();
        let _ = tau.clone().completion(Default::default());
        for f in tau.formulas.iter().take(4) {
            let _ = anthem::formatting::fol::sigma_0::tptp::Format(f).to_string();
        }
        // problem generation runs the high-degree polynomial simplifier: small programs only
        if p.rules.len() <= 6 && width <= 40 && text.matches('-').count() <= 12 && text.len() <= 600 {
            let _ = anthem::verif::strong(p.clone(), p.clone(), true, fol::Direction::Universal, false, true, true);
        }
    }
    if let Ok(t) = text.parse::<fol::Theory>() {
        let _ = t.to_string();
        let _ = t.clone().gamma();
        let _ = t.clone().completion(Default::default());
        for f in t.formulas.iter().take(4) {
            let _ = anthem::formatting::fol::sigma_0::tptp::Format(f).to_string();
        }
    }
    if let Ok(s) = text.parse::<fol::Specification>() {
        let _ = s.to_string();
        let tiny: asp::Program = "q(X) :- p(X).".parse().unwrap();
        let ug: fol::UserGuide = "input: p/1. output: q/1.".parse().unwrap();
        let _ = anthem::verif::external(either::Either::Right(s.clone()), tiny.clone(), ug.clone(), fol::Specification { formulas: vec![] }, true, fol::Direction::Universal, false, false, false, true);
        let _ = anthem::verif::external(either::Either::Left(tiny.clone()), tiny, ug, s, true, fol::Direction::Universal, false, false, false, true);
    }
    if let Ok(u) = text.parse::<fol::UserGuide>() {
        let _ = u.to_string();
    }
});
