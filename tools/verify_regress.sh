#!/bin/bash
# tools/verify_regress.sh: for every fixed finding, put the sources of the commit before its fix into /repo's
# working tree, run its regression replays (they must report a VIOLATION there) and restore the tree.
cd "$(dirname "$0")/.." || exit 2
if ! git -C /repo diff --quiet; then echo "/repo has uncommitted changes" >&2; exit 2; fi
trap 'git -C /repo checkout HEAD -- . ' EXIT
python3 - <<'PY' > /tmp/regress_list.txt
import json
d=json.load(open('known_findings.json'))
for k in d['findings']:
    if k['status']=='fixed':
        for r in k.get('regress',[]):
            print(k['property'], k['commit'], r)
PY
while read -r id commit file; do
  git -C /repo checkout -q "${commit}^" -- src Cargo.toml 2>/dev/null || { echo "$id $commit: cannot check out"; continue; }
  out=$(VERIF_EVIDENCE_DIR=/verif/target/seeded-evidence ./check "$id" --replay "$file" 2>&1)
  if echo "$out" | grep -q "^VIOLATION"; then echo "bites   $id $commit $file"; else echo "SILENT  $id $commit $file :: $(echo "$out" | tail -1 | cut -c1-120)"; fi
  git -C /repo checkout -q HEAD -- src Cargo.toml
done < /tmp/regress_list.txt
