#!/bin/bash
# tools/run_all.sh [tier] : run every check on the current tree (rewrites evidence/*.json), print one line each
cd "$(dirname "$0")/.." || exit 2
if ! git -C /repo diff --quiet; then echo "/repo has uncommitted changes" >&2; exit 2; fi
TIER=${1:-quick}
for id in C01 C02 C03 C04 C05 C06 C07 C08 C09 C10 C11 C12 C13 C14 C15 C16 C17 C18 C19 C20; do
  out=$(./check $id $TIER 2>&1); code=$?
  echo "$id exit=$code $(echo "$out" | grep -E "^$id (quick|thorough)" | cut -c1-100) $(echo "$out" | grep -c '^KNOWN-FINDING') known"
  echo "$out" | grep -E "^VIOLATION|^INTERNAL|^INCONCLUSIVE" | head -3
done
