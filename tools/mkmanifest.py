#!/usr/bin/env python3
"""Generate /verif/MANIFEST.json from the table below (kept in one place so it stays valid)."""
import json, os, subprocess, sys

ROOT = os.path.dirname(os.path.dirname(os.path.abspath(__file__)))

# id -> (technique, level text, level note, design ref)
CLAIMED = {
    "C05": (
        "property-based differential testing: generated formulas x here-and-there interpretations; oracle = independent Kripke evaluator vs classical evaluation of gamma(F) (proptest, shrinking); plus formula text in conventional notation (checker's own minimal-parentheses printer) vs the tree anthem reads, and `translate --with gamma` on text vs gamma of the tree; the printed gamma(F) must read back as the tree gamma(F)",
        "Exploration: on every generated formula (all connectives, three sorts, free variables) and every generated pair H subset-of T the HT truth value computed by the checker's own evaluator equals the classical truth value of gamma(F) in I_(H,T); predicates named p/hp/tp test that copies stay distinct. Sampling cannot prove the law, but gamma is a small structural recursion and each connective pair is hit thousands of times per run. The parser reads conventionally written formula text (arrow chains, and/or chains, prefix operators) as the formula it denotes.",
        "Trusted: the checker's window-relativised evaluator (sound here because gamma touches neither terms nor quantifier domains); proptest generators; finite extents.",
        "4/C05",
    ),
    "C17": (
        "property-based testing of the substitution lemma: generated formula x variable x term x interpretation; oracle = semantic equation plus free-variable equation (proptest, shrinking, directed binder/fresh-name generator)",
        "Exploration: for every generated (formula, variable, sort-compatible term) the result of Formula::substitute is evaluated against the substitution lemma in random interpretations/assignments and its free variables are compared with FV(F)-x+FV(t). A directed generator exhausts the fresh-name candidates (X1..Xk) so that renaming collisions are reached.",
        "Trusted: the checker's evaluator (window mode is sound: the substitution lemma holds for any quantifier domain) and free-variable function.",
        "4/C17",
    ),
}

CLAIMED.update({
    "C14": (
        "property-based round-trip testing: generated mini-gringo trees -> text by an independent fully-parenthesising printer (random whitespace/comments/spellings) -> parse/print/parse; oracle = tree identity and print stability (proptest, shrinking); plus a size-boundary search: programs of up to 20 000 (thorough 60 000) compactly written rules, bisection for the largest accepted size if a limit exists, where the printed program must be accepted again",
        "Exploration: every generated term, atom, body element, rule and program is rendered by the checker's own printer, parsed by anthem, printed by anthem and parsed again; the two trees must be identical and the printed text stable. All (parent operator, side, child operator/negative numeral) pairs are populated thousands of times per run (histogram in the evidence).",
        "Trusted: the checker's printer produces text whose parse is the generated tree's normal form; only trees in the image of the parser are compared.",
        "4/C14",
    ),
    "C15": (
        "property-based round-trip testing: (a) generated target-language trees via an independent printer -> parse/print/parse identity; (b) every output of translate/simplify on generated programs, and of gamma/simplify on generated hand-written theories, is re-parsed and compared (tree, else meaning by evaluation); (c) candidate identifiers at and beyond the edge of the documented shapes: whatever program, theory, user guide or specification the grammars accept must print text that reads back as the same tree; (d) generated programs of 16-600 rules through `translate` of the real binary, the output through `parse --as theory` and `translate --with gamma`",
        "Exploration: (a) as C14 for integer/general terms, formulas, theories, specifications (all roles/directions/names) and user guides with every accepted sort spelling; (b) the text printed for tau-star, natural, mu, gamma, completion and the 9 simplify variants on generated programs (predicate names such as notp, _r; variables named like the translators' fresh names) must be accepted, stable, and denote the same theory; the same for gamma and the 9 simplify variants applied to generated theories with leading-underscore names, keyword-prefixed names and one name at several sorts.",
        "Trusted: the checker's printer; for (b) the tree comparison (falls back to the checker's evaluator only when trees differ).",
        "4/C14-C15",
    ),
})

CLAIMED.update({
    "C06": (
        "property-based translation check: generated closed formulas rendered by tptp::Format inside a checker-assembled problem; oracle = strict TFF reader + type checker and evaluation of source vs read-back formula (proptest, shrinking)",
        "Exploration: every generated formula (chains of length 1-4 under every connective/quantifier, all sort combinations, isize::MIN/MAX numerals, placeholders of all sorts) is rendered, read back by an independent strict TFF reader and type checker with the standard reading of the preamble symbols, and must have the source formula's truth value in a random interpretation; rejection by the reader is a violation too.",
        "Trusted: the checker's TFF reader/type checker (acceptance cross-checked against the repository's tptp4X on anthem output and mutations) and evaluator; window mode is sound because rendering is a transliteration.",
        "4/C06",
    ),
    "C07": (
        "property-based semantic equivalence testing: generated formulas (guarded/unguarded, directed binder/equality shapes, translator outputs) x 3 portfolios x 3 strategies x interpretations; oracle = exact three-valued evaluator over the standard domain before vs after (HT for intuitionistic/ht, classical for classic); plus a differential of the command `anthem simplify` against the in-process application of the same portfolio and strategy",
        "Exploration: the truth value (HT or classical, as documented per portfolio) before and after simplification is computed exactly over the infinite standard domain through finite candidate sets; only definite verdicts are compared, the inconclusive share is reported. Each rewrite's firing frequency is in the evidence. The command line applies exactly the portfolio and strategy it is asked for (output equals the in-process result).",
        "Trusted: the exact evaluator (candidate-set soundness argued in DESIGN.md 3.2, self-checked in paranoid mode) and finite-extent interpretations.",
        "4/C07",
    ),
    "C18": (
        "property-based testing: (a) checker-driven iteration of the composed simplification pass with cycle detection and pass bound, idempotence of the fixpoint under all strategies; (b) byte comparison of repeated runs of the real binary in fresh processes, and of the saved files with the problems built in-process (programs named in five argument layouts incl. against the alphabet and file-plus-directory, all directions)",
        "Exploration: termination is decided without a clock (cycle = revisited formula; bound on passes), the fixpoint must equal apply_fixpoint and be stable under every strategy; determinism is checked by running translate/simplify/verify --save-problems (strong tasks and external tasks with several placeholders) three times in fresh processes on generated inputs with many predicates/symbols and comparing bytes and file sets.",
        "Trusted: process isolation gives fresh hash seeds; non-termination that is neither a cycle nor exceeds the pass bound cannot be observed.",
        "4/C18",
    ),
})

CLAIMED.update({
    "C01": (
        "property-based differential testing against a reference semantics: generated programs x HT interpretations; oracle = independent mini-gringo semantics (ground instances, partial division, intervals) vs exact HT evaluation of the tau* formulas; plus stable models vs equilibrium models on small universes; plus program text in conventional notation (checker's own minimal-parentheses printer) vs the tree anthem reads, and the CLI translation vs the library's",
        "Exploration: per rule, (H,T) satisfies the tau* formula iff it satisfies every ground instance by the reference semantics, for generated programs with every head/body shape, operator nesting, fresh-name-colliding variables and arithmetic corner classes; the consequence (stable = equilibrium models with extra facts) is checked exhaustively over all candidate J and all H below J for small universes; the parser reads conventionally written program text as the program it denotes and `anthem translate --with tau-star` prints the library's theory for it.",
        "Trusted: reference semantics (floor division for positive divisors, as tau_star.rs documents), exact evaluator; finite extents; definite verdicts only; the usual reading of arithmetic notation (unary minus > * / \\ > + - > .., left-associative).",
        "4/C01",
    ),
    "C03": (
        "property-based differential testing: generated program pairs x flags x (H,T) incl. H not subset of T; oracle = reference HT satisfaction of both programs vs exact classical evaluation of every emitted problem (hooked syntax trees) in I_(H,T); a twelfth of the cases also through the binary (five ways of naming the two program files) with the written files compared to the problems judged in-process, and in a fifth of the cases the emitted TPTP text of every problem is read back by the strict reader and must agree with its tree in the interpretation",
        "Exploration: an interpretation of the h-/t-copies refutes an emitted forward/backward problem iff H subset-of T and (H,T) satisfies one program but not the other, over all flag combinations and both formula representations; unrequested directions must be absent.",
        "Trusted: reference semantics, exact evaluator; identifiers chosen so that symbol renaming does not interfere (C09/C12 cover renaming).",
        "4/C03",
    ),
    "C04": (
        "property-based differential testing: tight generated programs x input sets x interpretations guided by reference stable models (and one-atom perturbations); oracle = reference stable-model test vs exact classical evaluation of the completion; mutation-based refusal test",
        "Exploration: J satisfies completion(tau*(P), inputs) iff J is a stable model of P with J's input facts; one completed definition per non-input predicate (also never-defined ones), none for inputs; theories with exactly one injected listed defect are refused, unmutated tau* theories never.",
        "Trusted: reference stable-model computation (reduct least model, cross-checked against the definition), exact evaluator.",
        "4/C04",
    ),
    "C08": (
        "property-based equivalence testing: generated regular/irregular rules x HT interpretations with non-integers at every position; oracle = exact HT evaluation of natural/mu formula vs tau* formula (and vs the reference semantics); the printed mu/natural theory must read back as the translation",
        "Exploration: every formula of mu() and, for accepted rules, of natural() has the tau* formula's truth value in every generated (H,T); an integer-sorted variable that excludes a satisfying non-integer value would show as a mismatch.",
        "Trusted: exact evaluator, reference semantics.",
        "4/C08",
    ),
    "C09": (
        "property-based testing with a strict independent TFF reader and type checker as oracle over every problem of generated strong/external tasks x flags; known-finding shapes in a separate tolerated campaign; tasks with generated proof outlines (definitions, lemmas, inductive lemmas); syntax differential of a sample of problems against tptp4X; candidate identifiers at and beyond the edge of the documented shapes (the grammars decide acceptance, whatever is accepted must come out well-formed)",
        "Exploration: each emitted problem must be valid typed TFF: words, unique names, one declaration and type per identifier, declared before use, typed quantifiers, one conjecture. Tricky-but-handled identifier shapes are in the main campaign; the recorded name-mangling defects are confirmed on recorded inputs and tolerated by narrow signature only.",
        "Trusted: the checker's TFF reader/type checker (syntax acceptance cross-checked against tptp4X).",
        "4/C09",
    ),
    "C11": (
        "property-based differential testing: generated programs; oracle = independent dependency-graph acyclicity and an independent implementation of the documented regularity definition; tasks with exactly one broken precondition must be refused with nothing emitted (library, and the binary with and without --save-problems)",
        "Exploration: is_tight/is_regular (and the analyze command on a sample) agree with independent implementations on programs with equal names at different arities, all signs, choice heads, long cycles; every task with one precondition broken by construction is refused and valid controls are accepted.",
        "Trusted: the documented definitions (analyze.md; unary minus read as 0 - t).",
        "4/C11",
    ),
    "C12": (
        "property-based testing: auto-generated axioms of every problem of generated tasks are read by the strict TFF reader and evaluated under the standard interpretation (windows for quantifiers); chain structure of ordering axioms checked exactly",
        "Exploration: ordering axioms mention exactly the declared symbolic constants, (by the checker's own traversal of the syntax trees), form one chain and are true when each constant is read as the symbol of the input files it stands for (reading derived from the source files, not by inverting anthem's renaming); transition axioms are true in every generated I_(H,T) and cover every predicate; the preamble is evaluated on windows around generated integers (incl. 64-bit limits) and symbols.",
        "Trusted: standard reading of the preamble symbols; window sampling as the property states.",
        "4/C12",
    ),
})

CLAIMED.update({
    "C02": (
        "property-based differential testing against a reference reading of external behaviour: generated valid tasks (mutation pairs, specifications, placeholders, clashing private names) x flags x interpretations guided by reference stable models; oracle = reference (stable on one side's vocabulary, private extents supported, not stable on the other) vs exact evaluation of every emitted problem; in an eighth of the cases the emitted TPTP text is read back and compared with the trees",
        "Exploration: an interpretation refutes an emitted forward/backward problem iff it witnesses a behavioural difference in that direction by the independent reference semantics; distinct source predicates must keep distinct names in the problems; valid tasks must be accepted and unrequested directions absent.",
        "Trusted: reference semantics and stable-model computation, exact evaluator; tasks are stratified by construction; an output predicate mentioned nowhere in the task is treated as vacuous.",
        "4/C02",
    ),
    "C10": (
        "property-based fault injection through the real binary: generated strong tasks and external tasks with proof outlines x generated prover plans (14 outcome kinds incl. Theorem followed by death from a signal, delays, 0-8 instances, missing executable, prover that exits without reading) with a stand-in vampire that records its stdin; oracle = plan-derived expected verdict, exact multiset equality of handed-over and saved problem texts, per-problem status lines",
        "Exploration: Success iff every planned outcome prints SZS status Theorem, every problem handed over exactly once byte-identical to the saved file, distinct names, status lines match the plan, exit status 0; half of the plans have zero or exactly one non-Theorem outcome at a generated position.",
        "Trusted: the stand-in prover; completion orders are induced by delays and instance counts under the OS scheduler (the harness does not own the interleaving).",
        "4/C10 and 7",
    ),
    "C13": (
        "property-based testing of an ordering invariant and of induction obligations: generated valid tasks + generated outlines (definitions, lemmas, inductive lemmas, all directions) x flags; oracle = sequencing invariant over the emitted problem list, implication from emitted base/step to independently constructed base/step under random interpretations, refusal of single-defect definitions",
        "Exploration: every axiom of every problem is justified (premise of the direction, accepted definition, earlier conclusion, or lemma all of whose establishing problems come earlier); emitted induction obligations imply the checker's own F[N:=n] and (N>=n & F -> F[N:=N+1]); each of 9 listed definition defects is refused.",
        "Trusted: formula names identify outline entries (every generated entry is named); window-mode evaluation for the purely logical induction check.",
        "4/C13",
    ),
    "C16": (
        "mutation-based fuzzing with a crash oracle: accepted texts (repository examples, directed corner texts, generated programs/theories) under token-level mutations, through every front end and every later stage in-process under catch_unwind, sampled through the real binary; raw bytes (invalid UTF-8) through the binary as files, also with proof search against a missing prover and against a stand-in prover that is killed by a signal, prints noise or exits non-zero; libFuzzer targets in the thorough tier",
        "Exploration: no panic, abort or hang in any stage for texts of moderate size; non-zero exit implies a message on stderr; numerals beyond the integer types, huge arities, empty/comment-only files are directed cases.",
        "Trusted: catch_unwind on 512 MB stacks (stack exhaustion is observable only through the binary; deep nesting is a recorded known finding).",
        "4/C16",
    ),
    "C19": (
        "metamorphic property-based testing: the same task under all 8 flag combinations x one interpretation (external tasks also over identifiers that anthem renames, with comparisons written constant-first); oracle = equality of the refutation verdict (exact evaluation) across combinations",
        "Exploration: for external tasks (guided interpretations) and strong tasks over unrestricted random programs, the verdict 'some problem has all axioms true and its conjecture false' is identical under every combination of simplify/eq-break/decomposition whenever definite.",
        "Trusted: exact evaluator; no reference semantics needed (metamorphic relation).",
        "4/C19",
    ),
    "C20": (
        "model-based testing through the real binary: generated file sets and argument permutations; oracle = reference model of role assignment vs numeral markers found among axioms/conjectures of the saved forward problems; metamorphic swap test in-process: the problems of (A, B) in one direction equal those of (B, A) in the opposite direction",
        "Exploration: the specification/program/user-guide/proof-outline roles observed in the saved problems equal those predicted from extensions, argument order and byte-wise directory order, for strong and external equivalence; missing required files must fail; for unrelated random program pairs (strong, tau-star and mu) and program-vs-program external tasks the forward problems of (A, B) and the backward problems of (B, A) are the same multiset of (axioms, conjectures), names aside.",
        "Trusted: the directory-order model (depth-first, byte-wise names, hidden files included).",
        "4/C20",
    ),
})

NOT_YET = {}

def main():
    props = [json.loads(l) for l in open(os.path.join(ROOT, "properties.jsonl"))]
    hook_commits = []
    try:
        out = subprocess.run(["git", "-C", "/repo", "log", "--format=%H %s"], capture_output=True, text=True).stdout
        for line in out.splitlines():
            h, s = line.split(" ", 1)
            if "feature 'verif'" in s or s.startswith("verif-hook"):
                hook_commits.append(h)
    except Exception:
        pass
    checks = []
    na = []
    for p in props:
        pid = p["id"]
        if pid in CLAIMED:
            tech, text, note, ref = CLAIMED[pid]
            checks.append({
                "property_id": pid,
                "quick_cmd": f"./check {pid} quick",
                "thorough_cmd": f"./check {pid} thorough",
                "evidence_file": f"/verif/evidence/{pid}.json",
                "replay_cmd_template": f"./check {pid} --replay {{path}}",
                "engine": "verif-engine",
                "level_claimed": {"category": "exploration", "text": text, "design_ref": f"DESIGN.md section {ref}"},
                "level_note": note,
                "technique": tech,
            })
        else:
            na.append({"property_id": pid, "reason": NOT_YET.get(pid, "check not built yet in this session (planned, see DESIGN.md section 6a); not claimed until it runs silently on the unchanged tree")})
    manifest = {
        "version": 1,
        "setup_cmd": "./setup.sh",
        "hooks": {
            "guard": "cargo feature `verif` of the anthem crate (off by default)",
            "enable": "the engine crate depends on anthem = { path = \"/repo\", features = [\"verif\"] }, so every engine build compiles /repo's working tree with the hooks on; CLI-level checks build /repo without the feature",
            "baseline_off_cmd": "cd /repo && cargo test --workspace --no-fail-fast --offline",
            "source_commits": hook_commits,
            "add_only": True,
        },
        "engines": [
            {"name": "verif-engine", "path": "/verif/engine", "serves_properties": sorted(CLAIMED), "kind_free_text": "Rust crate: proptest-driven generators, reference semantics, evaluators, strict TFF reader, campaign runner with shrinking/replay/evidence"},
        ],
        "checks": checks,
        "not_applicable": na,
        "notes": "All checks: exit 0 = held, 1 = VIOLATION line, 2 = inconclusive. Known findings: /verif/known_findings.json. Regression replays: /verif/regress/<ID>/.",
    }
    json.dump(manifest, open(os.path.join(ROOT, "MANIFEST.json"), "w"), indent=1)
    print("wrote MANIFEST.json with", len(checks), "checks,", len(na), "not_applicable")

if __name__ == "__main__":
    main()
