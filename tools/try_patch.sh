#!/bin/bash
# tools/try_patch.sh <patch.diff> <ID> [<ID> ...]   apply a patch to /repo, run the quick checks, undo it
set -u
PATCH="$1"; shift
cd /repo || exit 2
if ! git diff --quiet; then echo "/repo has uncommitted changes" >&2; exit 2; fi
if ! git apply "$PATCH"; then echo "patch does not apply" >&2; exit 2; fi
trap 'git -C /repo checkout -- . ' EXIT
for id in "$@"; do
  out=$(cd /verif && VERIF_EVIDENCE_DIR=/verif/target/seeded-evidence VERIF_SEED=${VERIF_SEED:-3} ./check "$id" ${TIER:-quick} 2>&1)
  code=$?
  echo "== $id exit=$code $(echo "$out" | grep -E "^$id (quick|thorough)" | cut -c1-80)"
  echo "$out" | grep -E "^signature|VIOLATION|INTERNAL|INCONCLUSIVE" | head -4 | cut -c1-200
done
