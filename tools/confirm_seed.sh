#!/bin/bash
# tools/confirm_seed.sh <ID> [<suffix>]: confirm a seeded change in its scratch worktree /tmp/wt/<ID><suffix>:
# compiles, unit+examples tests pass with it, demonstration fails with it and passes without it.
ID="$1"; SFX="${2:-}"; WT=/tmp/wt/$ID$SFX; OUT=/tmp/wt/$ID$SFX.out
cd "$WT" || exit 2
git diff > /tmp/confirm.diff
if ! diff -q /tmp/confirm.diff "$OUT/patch.diff" >/dev/null; then echo "NOTE: patch.diff differs from the worktree diff; using the worktree diff"; cp /tmp/confirm.diff "$OUT/patch.diff"; fi
T=$(cargo test --offline 2>&1 | grep -E "^test result" | head -3 | tr '\n' ' ')
echo "tests with change: $T"
run_demo() {
  if [ -f "$OUT/demo_test.rs" ]; then
    cp "$OUT/demo_test.rs" tests/demo_test.rs
    cargo test --offline --test demo_test >/tmp/demo.log 2>&1; r=$?
    rm -f tests/demo_test.rs
    return $r
  elif [ -f "$OUT/demo.sh" ]; then
    (cd "$WT" && bash "$OUT/demo.sh" >/tmp/demo.log 2>&1); return $?
  else
    echo "no demonstration found"; return 99
  fi
}
run_demo; WITH=$?
git apply -R "$OUT/patch.diff" || { echo "cannot revert"; exit 2; }
run_demo; WITHOUT=$?
git apply "$OUT/patch.diff"
echo "demo with change: exit $WITH (expected non-zero); without: exit $WITHOUT (expected 0)"
if [ $WITH -ne 0 ] && [ $WITHOUT -eq 0 ] && echo "$T" | grep -q "140 passed" ; then echo "CONFIRMED $ID$SFX"; else echo "NOT CONFIRMED $ID$SFX"; tail -5 /tmp/demo.log; fi
