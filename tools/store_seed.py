#!/usr/bin/env python3
"""store_seed.py <ID> <name> <wt-suffix> <needs> <detected-by...>: copy a confirmed seeded change into /verif/seeded/<name>/"""
import sys, os, shutil, json, glob
pid, name, sfx, needs = sys.argv[1:5]
detected = sys.argv[5:]
src = f"/tmp/wt/{pid}{sfx}.out"
dst = f"/verif/seeded/{name}"
os.makedirs(dst, exist_ok=True)
for f in glob.glob(src + "/*"):
    if os.path.isdir(f):
        shutil.copytree(f, os.path.join(dst, os.path.basename(f)), dirs_exist_ok=True)
    else:
        shutil.copy(f, dst)
meta = {
    "property": pid,
    "breaks": open(f"/tmp/wt/{pid}.prop.txt").read().splitlines()[0],
    "needs_to_manifest": needs,
    "confirmed": "in a scratch worktree: cargo test --offline reports 140 unit tests + examples ok with the change; the demonstration fails with the change and passes with it reverted (tools/confirm_seed.sh)",
    "checks_run": "tools/try_patch.sh patch.diff <checks> (quick tier, VERIF_SEED=3)",
    "detected_by": detected,
}
json.dump(meta, open(os.path.join(dst, "meta.json"), "w"), indent=1)
print("stored", dst)
