#!/bin/bash
# offline build of the framework from files on disk
set -eu
cd "$(dirname "$(readlink -f "$0")")"
export CARGO_NET_OFFLINE=true
mkdir -p target evidence
(cd engine && cargo build --release --offline)
cargo build --offline --manifest-path /repo/Cargo.toml --target-dir "$PWD/target/cli"
"$PWD/target/engine/release/engine" selftest 2
echo "setup ok"
