//! Strict reader and type checker for the TFF fragment anthem emits, and lowering into the IR.
//!
//! The grammar follows the TPTP syntax: lower_word / Upper_word / $dollar_word tokens (a leading
//! underscore is not a word), `&` and `|` associative only with themselves, the other binary
//! connectives non-associative ("binary with ambiguous associativity" otherwise).
use crate::dom::Sort;
use crate::ir::{Conn, Fm, IT, Op, Rel, Tm, VarId};
use std::collections::{BTreeMap, BTreeSet};

#[derive(Clone, Debug, PartialEq)]
enum Tok {
    Lower(String),
    Upper(String),
    Dollar(String),
    Int(String),
    P(&'static str),
}

#[derive(Clone, Debug)]
pub struct TffError {
    /// classification (syntax:..., type:...)
    pub class: String,
    pub message: String,
}

fn err<T>(class: &str, message: impl Into<String>) -> Result<T, TffError> {
    Err(TffError {
        class: class.to_string(),
        message: message.into(),
    })
}

fn lex(text: &str) -> Result<Vec<(Tok, usize)>, TffError> {
    let b = text.as_bytes();
    let mut i = 0;
    let mut out = vec![];
    let word_end = |mut j: usize| {
        while j < b.len() && (b[j].is_ascii_alphanumeric() || b[j] == b'_') {
            j += 1;
        }
        j
    };
    while i < b.len() {
        let c = b[i];
        if c.is_ascii_whitespace() {
            i += 1;
            continue;
        }
        if c == b'%' {
            while i < b.len() && b[i] != b'\n' {
                i += 1;
            }
            continue;
        }
        let start = i;
        if c.is_ascii_lowercase() {
            let j = word_end(i);
            out.push((Tok::Lower(text[i..j].to_string()), start));
            i = j;
        } else if c.is_ascii_uppercase() {
            let j = word_end(i);
            out.push((Tok::Upper(text[i..j].to_string()), start));
            i = j;
        } else if c == b'$' {
            if i + 1 < b.len() && b[i + 1].is_ascii_lowercase() {
                let j = word_end(i + 1);
                out.push((Tok::Dollar(text[i..j].to_string()), start));
                i = j;
            } else {
                return err("syntax:bad-dollar-word", format!("bad $-word at byte {i}"));
            }
        } else if c.is_ascii_digit() || ((c == b'-' || c == b'+') && i + 1 < b.len() && b[i + 1].is_ascii_digit()) {
            let mut j = i + 1;
            while j < b.len() && b[j].is_ascii_digit() {
                j += 1;
            }
            let digits = text[i..j].trim_start_matches(['-', '+']);
            if digits.len() > 1 && digits.starts_with('0') {
                return err("syntax:bad-integer", format!("integer with leading zero at byte {i}"));
            }
            if j < b.len() && (b[j].is_ascii_alphabetic() || b[j] == b'_') {
                return err("syntax:bad-integer", format!("integer followed by a letter at byte {i}"));
            }
            out.push((Tok::Int(text[i..j].to_string()), start));
            i = j;
        } else {
            let three = text.get(i..i + 3).unwrap_or("");
            let two = text.get(i..i + 2).unwrap_or("");
            let p: &'static str = if three == "<=>" {
                "<=>"
            } else if three == "<~>" {
                "<~>"
            } else if two == "=>" {
                "=>"
            } else if two == "<=" {
                "<="
            } else if two == "!=" {
                "!="
            } else if two == "~|" {
                "~|"
            } else if two == "~&" {
                "~&"
            } else {
                match c {
                    b'(' => "(",
                    b')' => ")",
                    b'[' => "[",
                    b']' => "]",
                    b',' => ",",
                    b'.' => ".",
                    b':' => ":",
                    b'!' => "!",
                    b'?' => "?",
                    b'~' => "~",
                    b'&' => "&",
                    b'|' => "|",
                    b'=' => "=",
                    b'>' => ">",
                    b'*' => "*",
                    other => {
                        let what = if other == b'_' {
                            "syntax:word-with-leading-underscore"
                        } else {
                            "syntax:bad-character"
                        };
                        return err(
                            what,
                            format!("character {:?} at byte {i}: {:?}", other as char, &text[i..(i + 30).min(text.len())]),
                        );
                    }
                }
            };
            i += p.len();
            out.push((Tok::P(p), start));
        }
    }
    Ok(out)
}

// ------------------------------------------------------------------------------- AST

#[derive(Clone, Debug, PartialEq, Eq)]
pub enum Type {
    TType,
    O,
    Atom(String),
    Fun(Vec<String>, Box<Type>),
}

#[derive(Clone, Debug, PartialEq)]
pub enum Term {
    Var(String),
    Int(i128),
    App(String, Vec<Term>),
}

#[derive(Clone, Debug, PartialEq)]
pub enum Formula {
    True,
    False,
    Atom(String, Vec<Term>),
    Eq(Term, Term),
    Ne(Term, Term),
    Not(Box<Formula>),
    Bin(&'static str, Box<Formula>, Box<Formula>),
    Q(bool, Vec<(String, Option<String>)>, Box<Formula>),
}

#[derive(Clone, Debug)]
pub enum Entry {
    TypeDecl { name: String, symbol: String, ty: Type },
    Logic { name: String, role: String, formula: Formula },
}

struct Parser<'a> {
    toks: Vec<(Tok, usize)>,
    pos: usize,
    text: &'a str,
}

impl<'a> Parser<'a> {
    fn peek(&self) -> Option<&Tok> {
        self.toks.get(self.pos).map(|t| &t.0)
    }
    fn at(&self) -> String {
        match self.toks.get(self.pos) {
            Some((_, p)) => format!("byte {} {:?}", p, &self.text[*p..(*p + 40).min(self.text.len())]),
            None => "end of input".to_string(),
        }
    }
    fn is_p(&self, p: &str) -> bool {
        matches!(self.peek(), Some(Tok::P(q)) if *q == p)
    }
    fn eat(&mut self, p: &str) -> Result<(), TffError> {
        if self.is_p(p) {
            self.pos += 1;
            Ok(())
        } else {
            err("syntax:unexpected-token", format!("expected {p:?} at {}", self.at()))
        }
    }
    fn lower(&mut self) -> Result<String, TffError> {
        match self.peek().cloned() {
            Some(Tok::Lower(s)) => {
                self.pos += 1;
                Ok(s)
            }
            _ => err("syntax:unexpected-token", format!("expected a lower-case word at {}", self.at())),
        }
    }

    fn file(&mut self) -> Result<Vec<Entry>, TffError> {
        let mut entries = vec![];
        while self.peek().is_some() {
            let kw = self.lower()?;
            if kw != "tff" {
                return err("syntax:not-tff", format!("expected tff(...) at {}", self.at()));
            }
            self.eat("(")?;
            let name = match self.peek().cloned() {
                Some(Tok::Lower(s)) | Some(Tok::Int(s)) => {
                    self.pos += 1;
                    s
                }
                _ => return err("syntax:bad-formula-name", format!("bad formula name at {}", self.at())),
            };
            self.eat(",")?;
            let role = self.lower()?;
            self.eat(",")?;
            if role == "type" {
                let mut parens = 0;
                while self.is_p("(") {
                    self.pos += 1;
                    parens += 1;
                }
                let symbol = match self.peek().cloned() {
                    Some(Tok::Lower(s)) | Some(Tok::Dollar(s)) => {
                        self.pos += 1;
                        s
                    }
                    _ => return err("syntax:bad-typed-symbol", format!("bad typed symbol at {}", self.at())),
                };
                self.eat(":")?;
                let ty = self.ty()?;
                for _ in 0..parens {
                    self.eat(")")?;
                }
                entries.push(Entry::TypeDecl { name, symbol, ty });
            } else {
                if !matches!(
                    role.as_str(),
                    "axiom" | "conjecture" | "hypothesis" | "lemma" | "definition" | "negated_conjecture" | "theorem"
                ) {
                    return err("syntax:bad-role", format!("unknown role {role}"));
                }
                let formula = self.logic()?;
                entries.push(Entry::Logic { name, role, formula });
            }
            self.eat(")")?;
            self.eat(".")?;
        }
        Ok(entries)
    }

    fn atomic_type(&mut self) -> Result<String, TffError> {
        match self.peek().cloned() {
            Some(Tok::Lower(s)) | Some(Tok::Dollar(s)) => {
                self.pos += 1;
                Ok(s)
            }
            _ => err("syntax:bad-type", format!("expected a type at {}", self.at())),
        }
    }

    fn ty(&mut self) -> Result<Type, TffError> {
        let args: Vec<String> = if self.is_p("(") {
            self.pos += 1;
            let mut v = vec![self.atomic_type()?];
            while self.is_p("*") {
                self.pos += 1;
                v.push(self.atomic_type()?);
            }
            self.eat(")")?;
            if !self.is_p(">") {
                if v.len() == 1 {
                    return Ok(atom_type(&v[0]));
                }
                return err("syntax:bad-type", format!("product type without result at {}", self.at()));
            }
            v
        } else {
            let a = self.atomic_type()?;
            if !self.is_p(">") {
                return Ok(atom_type(&a));
            }
            vec![a]
        };
        self.eat(">")?;
        let res = self.atomic_type()?;
        Ok(Type::Fun(args, Box::new(atom_type(&res))))
    }

    fn logic(&mut self) -> Result<Formula, TffError> {
        let first = self.unit()?;
        let op: &'static str = match self.peek() {
            Some(Tok::P(p)) if ["=>", "<=", "<=>", "<~>", "~|", "~&", "&", "|"].contains(p) => p,
            _ => return Ok(first),
        };
        self.pos += 1;
        if op == "&" || op == "|" {
            let mut acc = first;
            loop {
                let next = self.unit()?;
                acc = Formula::Bin(op, Box::new(acc), Box::new(next));
                if self.is_p(op) {
                    self.pos += 1;
                    continue;
                }
                break;
            }
            if let Some(Tok::P(p)) = self.peek() {
                if ["=>", "<=", "<=>", "<~>", "~|", "~&", "&", "|"].contains(p) {
                    return err(
                        "syntax:ambiguous-associativity",
                        format!("binary connective {p} after an unparenthesised {op}-formula at {}", self.at()),
                    );
                }
            }
            Ok(acc)
        } else {
            let second = self.unit()?;
            if let Some(Tok::P(p)) = self.peek() {
                if ["=>", "<=", "<=>", "<~>", "~|", "~&", "&", "|"].contains(p) {
                    return err(
                        "syntax:ambiguous-associativity",
                        format!("binary connective {p} after an unparenthesised {op}-formula at {}", self.at()),
                    );
                }
            }
            Ok(Formula::Bin(op, Box::new(first), Box::new(second)))
        }
    }

    fn unit(&mut self) -> Result<Formula, TffError> {
        match self.peek().cloned() {
            Some(Tok::P("~")) => {
                self.pos += 1;
                Ok(Formula::Not(Box::new(self.unit()?)))
            }
            Some(Tok::P(q)) if q == "!" || q == "?" => {
                self.pos += 1;
                self.eat("[")?;
                let mut vars = vec![];
                loop {
                    let v = match self.peek().cloned() {
                        Some(Tok::Upper(v)) => {
                            self.pos += 1;
                            v
                        }
                        _ => return err("syntax:bad-variable", format!("expected a variable at {}", self.at())),
                    };
                    let ty = if self.is_p(":") {
                        self.pos += 1;
                        Some(self.atomic_type()?)
                    } else {
                        None
                    };
                    vars.push((v, ty));
                    if self.is_p(",") {
                        self.pos += 1;
                        continue;
                    }
                    break;
                }
                self.eat("]")?;
                self.eat(":")?;
                let body = self.unit()?;
                Ok(Formula::Q(q == "!", vars, Box::new(body)))
            }
            Some(Tok::P("(")) => {
                self.pos += 1;
                let f = self.logic()?;
                self.eat(")")?;
                Ok(f)
            }
            _ => {
                let t = self.term()?;
                if self.is_p("=") {
                    self.pos += 1;
                    let r = self.term()?;
                    Ok(Formula::Eq(t, r))
                } else if self.is_p("!=") {
                    self.pos += 1;
                    let r = self.term()?;
                    Ok(Formula::Ne(t, r))
                } else {
                    match t {
                        Term::App(n, args) if n == "$true" && args.is_empty() => Ok(Formula::True),
                        Term::App(n, args) if n == "$false" && args.is_empty() => Ok(Formula::False),
                        Term::App(n, args) => Ok(Formula::Atom(n, args)),
                        _ => err("syntax:term-as-formula", format!("a variable or number is not a formula, before {}", self.at())),
                    }
                }
            }
        }
    }

    fn term(&mut self) -> Result<Term, TffError> {
        match self.peek().cloned() {
            Some(Tok::Upper(v)) => {
                self.pos += 1;
                Ok(Term::Var(v))
            }
            Some(Tok::Int(n)) => {
                self.pos += 1;
                match n.parse::<i128>() {
                    Ok(k) => Ok(Term::Int(k)),
                    Err(_) => err("syntax:bad-integer", format!("integer {n} out of range")),
                }
            }
            Some(Tok::Lower(f)) | Some(Tok::Dollar(f)) => {
                self.pos += 1;
                let mut args = vec![];
                if self.is_p("(") {
                    self.pos += 1;
                    loop {
                        args.push(self.term()?);
                        if self.is_p(",") {
                            self.pos += 1;
                            continue;
                        }
                        break;
                    }
                    self.eat(")")?;
                }
                Ok(Term::App(f, args))
            }
            _ => err("syntax:unexpected-token", format!("expected a term at {}", self.at())),
        }
    }
}

fn atom_type(s: &str) -> Type {
    match s {
        "$tType" => Type::TType,
        "$o" => Type::O,
        other => Type::Atom(other.to_string()),
    }
}

pub fn parse(text: &str) -> Result<Vec<Entry>, TffError> {
    let toks = lex(text)?;
    let mut p = Parser { toks, pos: 0, text };
    p.file()
}

// ------------------------------------------------------------------------------- type checking

#[derive(Clone, Debug, Default)]
pub struct Checked {
    pub entries: Vec<Entry>,
    pub symbols: BTreeMap<String, Type>,
    pub conjectures: usize,
}

fn builtin(name: &str) -> Option<Type> {
    let int = || "$int".to_string();
    Some(match name {
        "$sum" | "$difference" | "$product" => Type::Fun(vec![int(), int()], Box::new(Type::Atom(int()))),
        "$uminus" => Type::Fun(vec![int()], Box::new(Type::Atom(int()))),
        "$less" | "$lesseq" | "$greater" | "$greatereq" => Type::Fun(vec![int(), int()], Box::new(Type::O)),
        _ => return None,
    })
}

struct Tc<'a> {
    symbols: &'a BTreeMap<String, Type>,
    declared_so_far: BTreeSet<String>,
}

impl Tc<'_> {
    fn lookup(&self, name: &str) -> Result<Type, TffError> {
        if name.starts_with('$') {
            return match builtin(name) {
                Some(t) => Ok(t),
                None => err("type:unknown-defined-symbol", format!("unknown defined symbol {name}")),
            };
        }
        match self.symbols.get(name) {
            None => err("type:undeclared-symbol", format!("symbol {name} is used but not declared")),
            Some(t) => {
                if !self.declared_so_far.contains(name) {
                    return err("type:use-before-declaration", format!("symbol {name} is used before its declaration"));
                }
                Ok(t.clone())
            }
        }
    }

    fn term(&self, t: &Term, vars: &Vec<(String, String)>) -> Result<String, TffError> {
        match t {
            Term::Var(v) => match vars.iter().rev().find(|(n, _)| n == v) {
                Some((_, ty)) => Ok(ty.clone()),
                None => err("type:unbound-variable", format!("variable {v} is not bound by a quantifier")),
            },
            Term::Int(_) => Ok("$int".into()),
            Term::App(f, args) => {
                let ty = self.lookup(f)?;
                match ty {
                    Type::Atom(a) => {
                        if args.is_empty() {
                            Ok(a)
                        } else {
                            err("type:arity", format!("constant {f} applied to {} argument(s)", args.len()))
                        }
                    }
                    Type::Fun(params, res) => {
                        let Type::Atom(res) = *res else {
                            return err("type:predicate-as-term", format!("predicate {f} used as a term"));
                        };
                        if params.len() != args.len() {
                            return err("type:arity", format!("{f} expects {} argument(s), got {}", params.len(), args.len()));
                        }
                        for (p, a) in params.iter().zip(args) {
                            let at = self.term(a, vars)?;
                            if at != *p {
                                return err("type:argument", format!("argument of {f} has type {at}, expected {p}"));
                            }
                        }
                        Ok(res)
                    }
                    Type::O => err("type:predicate-as-term", format!("proposition {f} used as a term")),
                    Type::TType => err("type:type-as-term", format!("type {f} used as a term")),
                }
            }
        }
    }

    fn formula(&self, f: &Formula, vars: &mut Vec<(String, String)>) -> Result<(), TffError> {
        match f {
            Formula::True | Formula::False => Ok(()),
            Formula::Atom(p, args) => {
                let ty = self.lookup(p)?;
                match ty {
                    Type::O => {
                        if args.is_empty() {
                            Ok(())
                        } else {
                            err("type:arity", format!("proposition {p} applied to arguments"))
                        }
                    }
                    Type::Fun(params, res) if *res == Type::O => {
                        if params.len() != args.len() {
                            return err("type:arity", format!("{p} expects {} argument(s), got {}", params.len(), args.len()));
                        }
                        for (q, a) in params.iter().zip(args) {
                            let at = self.term(a, vars)?;
                            if at != *q {
                                return err("type:argument", format!("argument of {p} has type {at}, expected {q}"));
                            }
                        }
                        Ok(())
                    }
                    _ => err("type:term-as-formula", format!("{p} is not a predicate")),
                }
            }
            Formula::Eq(a, b) | Formula::Ne(a, b) => {
                let ta = self.term(a, vars)?;
                let tb = self.term(b, vars)?;
                if ta != tb {
                    return err("type:equality", format!("equality between types {ta} and {tb}"));
                }
                Ok(())
            }
            Formula::Not(g) => self.formula(g, vars),
            Formula::Bin(_, a, b) => {
                self.formula(a, vars)?;
                self.formula(b, vars)
            }
            Formula::Q(_, vs, g) => {
                let base = vars.len();
                for (v, ty) in vs {
                    let Some(ty) = ty else {
                        return err("type:untyped-variable", format!("variable {v} has no type"));
                    };
                    if ty != "$int" {
                        match self.symbols.get(ty) {
                            Some(Type::TType) if self.declared_so_far.contains(ty) => {}
                            _ => return err("type:unknown-type", format!("type {ty} of variable {v} is not declared")),
                        }
                    }
                    vars.push((v.clone(), ty.clone()));
                }
                let r = self.formula(g, vars);
                vars.truncate(base);
                r
            }
        }
    }
}

/// syntax + typing + structural conditions of a self-contained problem
pub fn check(text: &str) -> Result<Checked, TffError> {
    let entries = parse(text)?;
    let mut symbols: BTreeMap<String, Type> = BTreeMap::new();
    let mut names: BTreeSet<String> = BTreeSet::new();
    for e in &entries {
        let name = match e {
            Entry::TypeDecl { name, .. } | Entry::Logic { name, .. } => name,
        };
        if !names.insert(name.clone()) {
            return err("structure:duplicate-formula-name", format!("formula name {name} is used twice"));
        }
        if let Entry::TypeDecl { symbol, ty, .. } = e {
            if symbol.starts_with('$') {
                return err("type:redeclared-builtin", format!("defined symbol {symbol} is declared"));
            }
            if let Some(old) = symbols.get(symbol) {
                return if old == ty {
                    err("type:declared-twice", format!("symbol {symbol} is declared twice"))
                } else {
                    err("type:two-types", format!("symbol {symbol} is declared at two types: {old:?} and {ty:?}"))
                };
            }
            // the component types must exist
            let comps: Vec<&String> = match ty {
                Type::Atom(a) => vec![a],
                Type::Fun(ps, r) => {
                    let mut v: Vec<&String> = ps.iter().collect();
                    if let Type::Atom(a) = &**r {
                        v.push(a);
                    }
                    v
                }
                _ => vec![],
            };
            for c in comps {
                if c != "$int" && !matches!(symbols.get(c), Some(Type::TType)) {
                    return err("type:unknown-type", format!("type {c} in the declaration of {symbol} is not declared"));
                }
            }
            symbols.insert(symbol.clone(), ty.clone());
        }
    }
    let mut tc = Tc {
        symbols: &symbols,
        declared_so_far: BTreeSet::new(),
    };
    let mut conjectures = 0;
    for e in &entries {
        match e {
            Entry::TypeDecl { symbol, .. } => {
                tc.declared_so_far.insert(symbol.clone());
            }
            Entry::Logic { role, formula, name } => {
                if role == "conjecture" {
                    conjectures += 1;
                }
                tc.formula(formula, &mut vec![]).map_err(|e| TffError {
                    class: e.class,
                    message: format!("in formula {name}: {}", e.message),
                })?;
            }
        }
    }
    Ok(Checked {
        entries,
        symbols,
        conjectures,
    })
}

// ------------------------------------------------------------------------------- lowering

#[derive(Clone, Debug)]
pub enum ConstKind {
    /// a symbolic constant of the standard domain, with its source name
    Symbol(String),
    /// a placeholder (function constant) with its source name
    Placeholder(String),
}

pub struct Lowering<'a> {
    pub checked: &'a Checked,
    /// how constants of type `symbol` are read; constants of type general/$int are placeholders
    pub constants: &'a BTreeMap<String, ConstKind>,
}

fn sort_of_type(t: &str) -> Option<Sort> {
    match t {
        "general" => Some(Sort::G),
        "$int" => Some(Sort::I),
        "symbol" => Some(Sort::S),
        _ => None,
    }
}

impl Lowering<'_> {
    fn const_name(&self, c: &str) -> String {
        match self.constants.get(c) {
            Some(ConstKind::Placeholder(n)) | Some(ConstKind::Symbol(n)) => n.clone(),
            None => c.to_string(),
        }
    }

    fn int(&self, t: &Term) -> Result<IT, String> {
        Ok(match t {
            Term::Var(v) => IT::Var(v.clone()),
            Term::Int(n) => IT::Num(*n),
            Term::App(f, args) => match (f.as_str(), args.len()) {
                ("$sum", 2) => IT::Bin(Op::Add, Box::new(self.int(&args[0])?), Box::new(self.int(&args[1])?)),
                ("$difference", 2) => IT::Bin(Op::Sub, Box::new(self.int(&args[0])?), Box::new(self.int(&args[1])?)),
                ("$product", 2) => IT::Bin(Op::Mul, Box::new(self.int(&args[0])?), Box::new(self.int(&args[1])?)),
                ("$uminus", 1) => IT::Neg(Box::new(self.int(&args[0])?)),
                (_, 0) => IT::Fc(self.const_name(f)),
                _ => return Err(format!("cannot read {f} as an integer term")),
            },
        })
    }

    fn general(&self, t: &Term, vars: &Vec<(String, String)>) -> Result<Tm, String> {
        Ok(match t {
            Term::Var(v) => match vars.iter().rev().find(|(n, _)| n == v).map(|x| x.1.as_str()) {
                Some("general") => Tm::Var(v.clone()),
                Some("$int") => Tm::Int(IT::Var(v.clone())),
                Some("symbol") => Tm::SymVar(v.clone()),
                other => return Err(format!("variable {v} of type {other:?}")),
            },
            Term::Int(n) => Tm::Int(IT::Num(*n)),
            Term::App(f, args) => match (f.as_str(), args.len()) {
                ("f__integer__", 1) => Tm::Int(self.int(&args[0])?),
                ("f__symbolic__", 1) => self.general(&args[0], vars)?,
                ("c__infimum__", 0) => Tm::Inf,
                ("c__supremum__", 0) => Tm::Sup,
                (_, 0) => match self.checked.symbols.get(f) {
                    Some(Type::Atom(a)) if a == "general" => Tm::Fc(self.const_name(f)),
                    Some(Type::Atom(a)) if a == "$int" => Tm::Int(IT::Fc(self.const_name(f))),
                    Some(Type::Atom(a)) if a == "symbol" => match self.constants.get(f) {
                        Some(ConstKind::Placeholder(n)) => Tm::SymFc(n.clone()),
                        Some(ConstKind::Symbol(n)) => Tm::SymC(n.clone()),
                        None => Tm::SymC(f.clone()),
                    },
                    other => return Err(format!("constant {f} of type {other:?}")),
                },
                _ => Tm::Int(self.int(t)?),
            },
        })
    }

    pub fn formula(&self, f: &Formula, vars: &mut Vec<(String, String)>) -> Result<Fm, String> {
        Ok(match f {
            Formula::True => Fm::True,
            Formula::False => Fm::False,
            Formula::Atom(p, args) => {
                let rel = match p.as_str() {
                    "$less" | "p__less__" => Some(Rel::Lt),
                    "$lesseq" | "p__less_equal__" => Some(Rel::Le),
                    "$greater" | "p__greater__" => Some(Rel::Gt),
                    "$greatereq" | "p__greater_equal__" => Some(Rel::Ge),
                    _ => None,
                };
                if let (Some(r), 2) = (rel, args.len()) {
                    Fm::Cmp(self.general(&args[0], vars)?, vec![(r, self.general(&args[1], vars)?)])
                } else if p == "p__is_integer__" && args.len() == 1 {
                    Fm::IsInt(self.general(&args[0], vars)?)
                } else if p == "p__is_symbolic__" && args.len() == 1 {
                    Fm::IsSym(self.general(&args[0], vars)?)
                } else {
                    Fm::Atom(
                        p.clone(),
                        args.iter().map(|a| self.general(a, vars)).collect::<Result<Vec<_>, _>>()?,
                    )
                }
            }
            Formula::Eq(a, b) => Fm::Cmp(self.general(a, vars)?, vec![(Rel::Eq, self.general(b, vars)?)]),
            Formula::Ne(a, b) => Fm::Cmp(self.general(a, vars)?, vec![(Rel::Ne, self.general(b, vars)?)]),
            Formula::Not(g) => Fm::Not(Box::new(self.formula(g, vars)?)),
            Formula::Bin(op, a, b) => {
                let (a, b) = (self.formula(a, vars)?, self.formula(b, vars)?);
                match *op {
                    "&" => Fm::bin(Conn::And, a, b),
                    "|" => Fm::bin(Conn::Or, a, b),
                    "=>" => Fm::bin(Conn::Imp, a, b),
                    "<=" => Fm::bin(Conn::Rimp, a, b),
                    "<=>" => Fm::bin(Conn::Iff, a, b),
                    "<~>" => Fm::not(Fm::bin(Conn::Iff, a, b)),
                    "~|" => Fm::not(Fm::bin(Conn::Or, a, b)),
                    "~&" => Fm::not(Fm::bin(Conn::And, a, b)),
                    other => return Err(format!("connective {other}")),
                }
            }
            Formula::Q(fa, vs, g) => {
                let base = vars.len();
                let mut ids: Vec<VarId> = vec![];
                for (v, ty) in vs {
                    let ty = ty.clone().ok_or_else(|| format!("untyped variable {v}"))?;
                    let sort = sort_of_type(&ty).ok_or_else(|| format!("variable {v} of type {ty}"))?;
                    ids.push((v.clone(), sort));
                    vars.push((v.clone(), ty));
                }
                let body = self.formula(g, vars);
                vars.truncate(base);
                Fm::Q(*fa, ids, Box::new(body?))
            }
        })
    }
}

/// the annotated formulas of a checked file, lowered (type declarations skipped)
pub fn lower_all(
    checked: &Checked,
    constants: &BTreeMap<String, ConstKind>,
) -> Result<Vec<(String, String, Fm)>, String> {
    let l = Lowering { checked, constants };
    let mut out = vec![];
    for e in &checked.entries {
        if let Entry::Logic { name, role, formula } = e {
            out.push((name.clone(), role.clone(), l.formula(formula, &mut vec![])?));
        }
    }
    Ok(out)
}
