//! Self-tests of the trusted base (oracles): run by `engine selftest` (setup and on demand).
use crate::asp_ref;
use crate::checks::{c01, c07, problems};
use crate::cli;
use crate::dom::Val;
use crate::eval::{Env, Ev, World};
use crate::generators::asp as ga;
use crate::generators::fol as g;
use crate::generators::task::{self as gt, Chooser};
use crate::generators::text;
use crate::ir;
use crate::tff;
use proptest::strategy::{Strategy, ValueTree};
use proptest::test_runner::{Config, RngAlgorithm, TestRng, TestRunner};
use std::path::Path;

fn runner(seed: u8) -> TestRunner {
    TestRunner::new_with_rng(
        Config {
            failure_persistence: None,
            ..Config::default()
        },
        TestRng::from_seed(RngAlgorithm::ChaCha, &[seed; 32]),
    )
}

/// the exact evaluator in paranoid mode (every candidate-set answer cross-checked against the
/// probe window) and against window evaluation
fn evaluator(n: usize) -> Result<usize, String> {
    let mut r = runner(7);
    let cfg = c07::fol_cfg();
    let strat = (g::guarded_formula(&cfg), g::formula(&cfg), g::raw_interp(8, cfg.fcs.len(), 2, 5), proptest::collection::vec(proptest::num::u16::ANY, 6));
    let mut compared = 0;
    for k in 0..n {
        let (fg, fu, raw, envc) = strat.new_tree(&mut r).map_err(|e| e.to_string())?.current();
        // every third formula is unguarded (exercises the complete representatives of pure equality logic)
        let f = if k % 3 == 0 { fu } else { fg };
        let fm = ir::lower(&f);
        let mut sig = ir::Signature::default();
        fm.signature(&mut sig);
        let pool = g::value_pool(&sig, &["zz"]);
        let preds: Vec<(String, usize)> = sig.preds.iter().cloned().collect();
        let fcs: Vec<ir::VarId> = cfg.fcs.iter().cloned().collect();
        let (h, t) = g::build_interp(&raw, &preds, &fcs, &pool);
        let envp = g::build_env(&fm.free_vars(), &envc, &pool);
        for ht in [false, true] {
            let mut ev = if ht { Ev::ht(&h, &t, &pool, true) } else { Ev::classical(&t, &pool, true) };
            ev.paranoid = true;
            ev.budget.set(300_000);
            let w = if ht { World::H } else { World::T };
            let caught = std::panic::catch_unwind(std::panic::AssertUnwindSafe(|| ev.sat(&fm, &mut Env::from_pairs(&envp), w)));
            match caught {
                Err(_) => return Err(format!("paranoid cross-check failed on {f}")),
                Ok(Some(exact)) => {
                    // a definite exact answer that is an existential witness / universal counterexample
                    // found inside the window must agree with the window evaluation when the window
                    // evaluation of the *same* formula is also exact, i.e. for quantifier-free formulas
                    if !has_quantifier(&fm) {
                        let evw = if ht { Ev::ht(&h, &t, &pool, false) } else { Ev::classical(&t, &pool, false) };
                        let win = evw.sat(&fm, &mut Env::from_pairs(&envp), w);
                        if win != Some(exact) {
                            return Err(format!("exact {exact} vs window {win:?} on quantifier-free {f}"));
                        }
                    }
                    compared += 1;
                }
                Ok(None) => {}
            }
        }
    }
    Ok(compared)
}

fn has_quantifier(f: &ir::Fm) -> bool {
    match f {
        ir::Fm::Q(..) => true,
        ir::Fm::Not(g) => has_quantifier(g),
        ir::Fm::Bin(_, a, b) => has_quantifier(a) || has_quantifier(b),
        _ => false,
    }
}

/// stability by reduct least model vs stability by the definition
fn stability(n: usize) -> Result<usize, String> {
    let mut r = runner(11);
    let cfg = ga::AspCfg {
        preds: vec![("p".into(), 1), ("q".into(), 1), ("s".into(), 0)],
        vars: vec!["X".into(), "Y".into()],
        syms: vec!["a".into()],
        num_lo: 0,
        num_hi: 2,
        term_depth: 1,
        op_weights: [3, 2, 1, 1, 1, 2],
        max_body: 2,
        max_rules: 3,
        exotic_leaf_weight: 1,
    };
    let strat = (ga::shaped_program(&cfg, 1), g::raw_interp(3, 0, 1, 3));
    let mut compared = 0;
    for _ in 0..n {
        let (p, raw) = strat.new_tree(&mut r).map_err(|e| e.to_string())?.current();
        let pool = c01::program_pool(&p);
        let preds = c01::program_preds(&p);
        let (facts_h, j) = g::build_interp(&raw, &preds, &[], &pool);
        let facts = facts_h; // a subset of j
        let a = asp_ref::is_stable(&p, &facts, &j);
        let b = asp_ref::is_stable_by_definition(&p, &facts, &j);
        if let (Some(x), Some(y)) = (a, b) {
            if x != y {
                return Err(format!(
                    "is_stable (reduct) = {x} but by the definition = {y}\n program: {}\n facts: {}\n J: {}",
                    crate::safe_print::asp_program(&p, &crate::safe_print::Style::plain()),
                    facts.json(),
                    j.json()
                ));
            }
            compared += 1;
        }
    }
    Ok(compared)
}

/// acceptance of the strict TFF reader vs the repository's tptp4X on emitted and mutated problems
fn tptp4x(n: usize) -> Result<usize, String> {
    let tool = Path::new("/repo/tests/examples/tptp4X_linux");
    if !tool.exists() {
        return Ok(0);
    }
    let mut r = runner(13);
    let strat = (problems::task_strategy(false), gt::choices(12));
    let dir = cli::scratch_dir("selftest");
    let mut compared = 0;
    let mut result = Ok(());
    'outer: for i in 0..n {
        let (task, mutation) = strat.new_tree(&mut r).map_err(|e| e.to_string())?.current();
        let Ok(built) = problems::build(&task, false) else { continue };
        for p in built.problems.iter().take(2) {
            for mutated in [false, true] {
                let text = if mutated {
                    let mut c = Chooser::new(mutation.clone());
                    // mutate only the task-specific tail so that the preamble stays intact
                    let lines: Vec<&str> = p.text.lines().collect();
                    let head = lines[..27.min(lines.len())].join("\n");
                    let tail = lines[27.min(lines.len())..].join("\n");
                    format!("{head}\n{}", text::mutate(&tail, &mut c, 1))
                } else {
                    p.text.clone()
                };
                if !text.is_ascii() {
                    continue;
                }
                let path = dir.join(format!("p{i}.p"));
                std::fs::write(&path, &text).map_err(|e| e.to_string())?;
                let out = std::process::Command::new(tool).arg("-q3").arg(&path).output().map_err(|e| e.to_string())?;
                let theirs = out.status.success();
                // tptp4X checks syntax, unbound variables and duplicate names - not types
                let mine = match tff::check(&text) {
                    Ok(_) => true,
                    Err(e) => e.class.starts_with("type:") && e.class != "type:unbound-variable" && e.class != "type:untyped-variable",
                };
                if mine != theirs {
                    // mutations can produce TPTP that is outside the fragment the reader supports
                    // (quoted words, other roles ...): only disagreements on unmutated output count
                    if !mutated || (mine && !theirs) {
                        result = Err(format!(
                            "strict reader {} but tptp4X {} (mutated={mutated}); reader says: {:?}\n{}",
                            if mine { "accepts" } else { "rejects" },
                            if theirs { "accepts" } else { "rejects" },
                            tff::check(&text).err().map(|e| e.message),
                            text.lines().skip(27).collect::<Vec<_>>().join("\n")
                        ));
                        break 'outer;
                    }
                }
                compared += 1;
            }
        }
    }
    let _ = std::fs::remove_dir_all(&dir);
    result.map(|_| compared)
}

/// hand-computed truth values
fn tables() -> Result<usize, String> {
    let cases: [(&str, &[(&str, &[&str])], bool); 18] = [
        // complete representatives for pure equality logic (no guard bounds the variable)
        ("exists X (p(X) <-> not q(X))", &[("p", &["1"]), ("q", &["1"])], false),
        ("exists X (p(X) <-> not q(X))", &[("p", &["1"]), ("q", &["2"])], true),
        ("forall X (p(X) or not p(X))", &[("p", &["1"])], true),
        ("exists X Y (X != Y and not p(X) and not p(Y))", &[("p", &["1"])], true),
        ("forall X p(X)", &[("p", &["1", "a", "#inf", "#sup"])], false),
        ("not exists X (not p(X) and not q(X))", &[("p", &["1"]), ("q", &["a"])], false),
        ("forall X$i exists Y$i (X$i != Y$i and not p(Y$i))", &[("p", &["1", "2"])], true),
        ("exists X$s forall Y (p(Y) -> X$s != Y)", &[("p", &["a", "b"])], true),
        ("exists X (p(X) and X > 1)", &[("p", &["1", "2"])], true),
        ("forall X (p(X) -> X > 1)", &[("p", &["1", "2"])], false),
        ("exists X$i (X$i * 2 = 6 and p(X$i))", &[("p", &["3"])], true),
        ("forall X (p(X) <-> exists Y (q(Y) and X = Y))", &[("p", &["a", "1"]), ("q", &["1", "a"])], true),
        ("exists X (X = #inf and p(X))", &[("p", &["#inf"])], true),
        ("forall N$i (1 <= N$i <= 3 -> p(N$i))", &[("p", &["1", "2", "3"])], true),
        ("forall N$i (1 <= N$i <= 3 -> p(N$i))", &[("p", &["1", "3"])], false),
        ("exists I$i J$i (5 = I$i + J$i and p(I$i) and q(J$i))", &[("p", &["2"]), ("q", &["3"])], true),
        ("not exists X (p(X) and not q(X))", &[("p", &["1"]), ("q", &["1"])], true),
        ("a < b and 3 < a and #inf < 0 and b < #sup", &[], true),
    ];
    for (text, ext, expected) in cases.iter() {
        let f: anthem::syntax_tree::fol::sigma_0::Formula = text.parse().map_err(|_| format!("cannot parse {text}"))?;
        let mut i = crate::dom::Interp::default();
        for (p, tuples) in ext.iter() {
            for t in tuples.iter() {
                i.insert(p, vec![Val::parse(t)]);
            }
        }
        let pool = vec![Val::Inf, Val::Int(0), Val::Int(1), Val::Int(2), Val::Int(3), Val::Sym("a".into()), Val::Sup];
        let ev = Ev::classical(&i, &pool, true);
        let got = ev.sat(&ir::lower(&f), &mut Env::new(), World::T);
        if got != Some(*expected) {
            return Err(format!("{text} evaluates to {got:?}, expected {expected}"));
        }
    }
    Ok(cases.len())
}

pub fn main(scale: usize) -> i32 {
    let mut failed = false;
    for (name, r) in [
        ("hand-computed truth tables", tables()),
        ("exact evaluator: paranoid candidate sets, window agreement", evaluator(3_000 * scale)),
        ("stable models: reduct least model vs definition", stability(2_000 * scale)),
        ("strict TFF reader vs tptp4X", tptp4x(60 * scale)),
    ] {
        match r {
            Ok(n) => println!("selftest ok: {name} ({n} comparisons)"),
            Err(e) => {
                println!("selftest FAILED: {name}: {e}");
                failed = true;
            }
        }
    }
    if failed { 2 } else { 0 }
}
