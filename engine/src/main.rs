#![allow(dead_code)]
mod asp_ref;
mod checks;
mod cli;
mod dom;
mod eval;
mod ext_ref;
mod generators;
mod ir;
mod ops;
mod runner;
mod safe_print;
mod selftest;
mod stub;
mod tff;

use runner::Tier;
use std::path::PathBuf;

fn root() -> PathBuf {
    std::env::var("VERIF_ROOT")
        .map(PathBuf::from)
        .unwrap_or_else(|_| PathBuf::from("/verif"))
}

fn main() {
    if std::env::args().next().is_some_and(|a| a.ends_with("vampire")) {
        stub::main();
    }
    runner::install_panic_hook();
    let args: Vec<String> = std::env::args().collect();
    let usage = || -> ! {
        eprintln!("usage: engine check <ID> <quick|thorough> | engine replay <ID> <file> | engine list");
        std::process::exit(2)
    };
    if args.len() < 2 {
        usage();
    }
    let seed: u64 = std::env::var("VERIF_SEED")
        .ok()
        .and_then(|s| s.trim().parse::<i128>().ok())
        .map(|n| n as u64)
        .unwrap_or(20260925);
    match args[1].as_str() {
        "selftest" => {
            let scale = args.get(2).and_then(|x| x.parse().ok()).unwrap_or(1);
            std::process::exit(selftest::main(scale));
        }
        "list" => {
            for id in checks::ALL {
                println!("{id}");
            }
        }
        "check" => {
            if args.len() < 4 {
                usage();
            }
            let tier = match args[3].as_str() {
                "quick" => Tier::Quick,
                "thorough" => Tier::Thorough,
                _ => usage(),
            };
            let Some(p) = checks::property(&args[2]) else {
                eprintln!("unknown property {}", args[2]);
                std::process::exit(2)
            };
            let code = runner::run_property(&p, tier, seed, &root());
            std::process::exit(code);
        }
        "replay" => {
            if args.len() < 4 {
                usage();
            }
            let Some(p) = checks::property(&args[2]) else {
                eprintln!("unknown property {}", args[2]);
                std::process::exit(2)
            };
            let code = runner::replay_file(&p, std::path::Path::new(&args[3]), &root());
            std::process::exit(code);
        }
        _ => usage(),
    }
}
