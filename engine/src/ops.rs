//! Thin wrappers around anthem's public API (and the `verif` hooks) shared by the checks.
use anthem::convenience::apply::Apply as _;
use anthem::syntax_tree::fol::sigma_0 as fol;

#[derive(Clone, Copy, Debug, PartialEq, Eq)]
pub enum Strategy {
    Shallow,
    Recursive,
    Fixpoint,
}

pub const STRATEGIES: [Strategy; 3] = [Strategy::Shallow, Strategy::Recursive, Strategy::Fixpoint];
pub const PORTFOLIOS: [&str; 3] = ["intuitionistic", "ht", "classic"];

impl Strategy {
    pub fn name(&self) -> &'static str {
        match self {
            Strategy::Shallow => "shallow",
            Strategy::Recursive => "recursive",
            Strategy::Fixpoint => "fixpoint",
        }
    }
    pub fn parse(s: &str) -> Option<Strategy> {
        STRATEGIES.iter().copied().find(|x| x.name() == s)
    }
}

pub fn portfolio(name: &str) -> Vec<anthem::verif::Simplification> {
    anthem::verif::portfolios()
        .into_iter()
        .find(|(n, _)| *n == name)
        .unwrap_or_else(|| panic!("unknown portfolio {name}"))
        .1
}

/// what `simplify --portfolio P --strategy S` does to one formula
pub fn simplify(f: fol::Formula, portfolio_name: &str, strategy: Strategy) -> fol::Formula {
    let fs = portfolio(portfolio_name);
    let mut composed = |x: fol::Formula| fs.iter().fold(x, |x, f| f(x));
    match strategy {
        Strategy::Shallow => composed(f),
        Strategy::Recursive => f.apply(&mut composed),
        Strategy::Fixpoint => f.apply_fixpoint(&mut composed),
    }
}

/// one post-order pass of the composed portfolio
pub fn simplify_pass(f: fol::Formula, portfolio_name: &str) -> fol::Formula {
    simplify(f, portfolio_name, Strategy::Recursive)
}

// ---------------------------------------------------------------------------------------
// verification tasks through the hooks

use crate::generators::task::{ExternalTask, Flags};
use anthem::syntax_tree::asp::mini_gringo as asp;
use anthem::verif::ProblemData;

pub type TaskResult = Result<(Vec<ProblemData>, Vec<String>), (String, String)>;

pub fn external_problems(
    task: &ExternalTask,
    outline: &fol::Specification,
    flags: &Flags,
    bypass_tightness: bool,
) -> TaskResult {
    let spec = match (&task.left_program, &task.left_spec) {
        (Some(p), _) => either::Either::Left(p.clone()),
        (None, Some(s)) => either::Either::Right(s.clone()),
        _ => panic!("task without left side"),
    };
    anthem::verif::external(
        spec,
        task.right.clone(),
        task.user_guide.clone(),
        outline.clone(),
        flags.sequential,
        flags.direction,
        false,
        bypass_tightness,
        flags.simplify,
        flags.eq_break,
    )
}

pub fn strong_problems(left: &asp::Program, right: &asp::Program, flags: &Flags, mu: bool) -> Vec<ProblemData> {
    anthem::verif::strong(
        left.clone(),
        right.clone(),
        flags.sequential,
        flags.direction,
        mu,
        flags.simplify,
        flags.eq_break,
    )
}

pub fn empty_outline() -> fol::Specification {
    fol::Specification { formulas: vec![] }
}
