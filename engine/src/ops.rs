//! Thin wrappers around anthem's public API (and the `verif` hooks) shared by the checks.
use anthem::convenience::apply::Apply as _;
use anthem::syntax_tree::fol::sigma_0 as fol;

#[derive(Clone, Copy, Debug, PartialEq, Eq)]
pub enum Strategy {
    Shallow,
    Recursive,
    Fixpoint,
}

pub const STRATEGIES: [Strategy; 3] = [Strategy::Shallow, Strategy::Recursive, Strategy::Fixpoint];
pub const PORTFOLIOS: [&str; 3] = ["intuitionistic", "ht", "classic"];

impl Strategy {
    pub fn name(&self) -> &'static str {
        match self {
            Strategy::Shallow => "shallow",
            Strategy::Recursive => "recursive",
            Strategy::Fixpoint => "fixpoint",
        }
    }
    pub fn parse(s: &str) -> Option<Strategy> {
        STRATEGIES.iter().copied().find(|x| x.name() == s)
    }
}

pub fn portfolio(name: &str) -> Vec<anthem::verif::Simplification> {
    anthem::verif::portfolios()
        .into_iter()
        .find(|(n, _)| *n == name)
        .unwrap_or_else(|| panic!("unknown portfolio {name}"))
        .1
}

/// what `simplify --portfolio P --strategy S` does to one formula
pub fn simplify(f: fol::Formula, portfolio_name: &str, strategy: Strategy) -> fol::Formula {
    let fs = portfolio(portfolio_name);
    let mut composed = |x: fol::Formula| fs.iter().fold(x, |x, f| f(x));
    match strategy {
        Strategy::Shallow => composed(f),
        Strategy::Recursive => f.apply(&mut composed),
        Strategy::Fixpoint => f.apply_fixpoint(&mut composed),
    }
}

/// one post-order pass of the composed portfolio
pub fn simplify_pass(f: fol::Formula, portfolio_name: &str) -> fol::Formula {
    simplify(f, portfolio_name, Strategy::Recursive)
}
