//! Semantic IR shared by formulas from anthem's syntax trees, the TFF reader and the checker.
use crate::dom::Sort;
use anthem::syntax_tree::fol::sigma_0 as fol;
use std::collections::BTreeSet;

pub type VarId = (String, Sort);

#[derive(Clone, Copy, Debug, PartialEq, Eq, Hash)]
pub enum Op {
    Add,
    Sub,
    Mul,
}

#[derive(Clone, Debug, PartialEq, Eq, Hash)]
pub enum IT {
    Num(i128),
    Var(String),
    Fc(String),
    Neg(Box<IT>),
    Bin(Op, Box<IT>, Box<IT>),
}

#[derive(Clone, Debug, PartialEq, Eq, Hash)]
pub enum Tm {
    Inf,
    Sup,
    Var(String),
    Fc(String),
    Int(IT),
    SymC(String),
    SymVar(String),
    SymFc(String),
}

#[derive(Clone, Copy, Debug, PartialEq, Eq, Hash)]
pub enum Rel {
    Eq,
    Ne,
    Lt,
    Le,
    Gt,
    Ge,
}

impl Rel {
    pub fn holds<T: Ord>(&self, a: &T, b: &T) -> bool {
        match self {
            Rel::Eq => a == b,
            Rel::Ne => a != b,
            Rel::Lt => a < b,
            Rel::Le => a <= b,
            Rel::Gt => a > b,
            Rel::Ge => a >= b,
        }
    }
}

#[derive(Clone, Copy, Debug, PartialEq, Eq, Hash)]
pub enum Conn {
    And,
    Or,
    Imp,
    Rimp,
    Iff,
}

#[derive(Clone, Debug, PartialEq, Eq, Hash)]
pub enum Fm {
    True,
    False,
    Atom(String, Vec<Tm>),
    Cmp(Tm, Vec<(Rel, Tm)>),
    IsInt(Tm),
    IsSym(Tm),
    Not(Box<Fm>),
    Bin(Conn, Box<Fm>, Box<Fm>),
    Q(bool, Vec<VarId>, Box<Fm>), // true = forall
}

impl IT {
    pub fn vars(&self, out: &mut BTreeSet<VarId>) {
        match self {
            IT::Num(_) | IT::Fc(_) => {}
            IT::Var(v) => {
                out.insert((v.clone(), Sort::I));
            }
            IT::Neg(a) => a.vars(out),
            IT::Bin(_, a, b) => {
                a.vars(out);
                b.vars(out);
            }
        }
    }
    pub fn fcs(&self, out: &mut BTreeSet<VarId>) {
        match self {
            IT::Num(_) | IT::Var(_) => {}
            IT::Fc(v) => {
                out.insert((v.clone(), Sort::I));
            }
            IT::Neg(a) => a.fcs(out),
            IT::Bin(_, a, b) => {
                a.fcs(out);
                b.fcs(out);
            }
        }
    }
    pub fn nums(&self, out: &mut BTreeSet<i128>) {
        match self {
            IT::Num(n) => {
                out.insert(*n);
            }
            IT::Var(_) | IT::Fc(_) => {}
            IT::Neg(a) => a.nums(out),
            IT::Bin(_, a, b) => {
                a.nums(out);
                b.nums(out);
            }
        }
    }
}

impl Tm {
    pub fn vars(&self, out: &mut BTreeSet<VarId>) {
        match self {
            Tm::Var(v) => {
                out.insert((v.clone(), Sort::G));
            }
            Tm::SymVar(v) => {
                out.insert((v.clone(), Sort::S));
            }
            Tm::Int(t) => t.vars(out),
            _ => {}
        }
    }
    pub fn fcs(&self, out: &mut BTreeSet<VarId>) {
        match self {
            Tm::Fc(v) => {
                out.insert((v.clone(), Sort::G));
            }
            Tm::SymFc(v) => {
                out.insert((v.clone(), Sort::S));
            }
            Tm::Int(t) => t.fcs(out),
            _ => {}
        }
    }
}

impl Fm {
    pub fn not(f: Fm) -> Fm {
        Fm::Not(Box::new(f))
    }
    pub fn bin(c: Conn, a: Fm, b: Fm) -> Fm {
        Fm::Bin(c, Box::new(a), Box::new(b))
    }
    pub fn free_vars(&self) -> BTreeSet<VarId> {
        let mut out = BTreeSet::new();
        self.fv(&mut out);
        out
    }
    fn fv(&self, out: &mut BTreeSet<VarId>) {
        match self {
            Fm::True | Fm::False => {}
            Fm::Atom(_, ts) => ts.iter().for_each(|t| t.vars(out)),
            Fm::Cmp(t, gs) => {
                t.vars(out);
                gs.iter().for_each(|(_, t)| t.vars(out));
            }
            Fm::IsInt(t) | Fm::IsSym(t) => t.vars(out),
            Fm::Not(f) => f.fv(out),
            Fm::Bin(_, a, b) => {
                a.fv(out);
                b.fv(out);
            }
            Fm::Q(_, vs, f) => {
                let mut inner = BTreeSet::new();
                f.fv(&mut inner);
                for v in vs {
                    inner.remove(v);
                }
                out.extend(inner);
            }
        }
    }
    /// predicates (name, arity), function constants, symbols, numerals mentioned
    pub fn signature(&self, sig: &mut Signature) {
        match self {
            Fm::True | Fm::False => {}
            Fm::Atom(p, ts) => {
                sig.preds.insert((p.clone(), ts.len()));
                ts.iter().for_each(|t| sig.term(t));
            }
            Fm::Cmp(t, gs) => {
                sig.term(t);
                gs.iter().for_each(|(_, t)| sig.term(t));
            }
            Fm::IsInt(t) | Fm::IsSym(t) => sig.term(t),
            Fm::Not(f) => f.signature(sig),
            Fm::Bin(_, a, b) => {
                a.signature(sig);
                b.signature(sig);
            }
            Fm::Q(_, _, f) => f.signature(sig),
        }
    }
    pub fn size(&self) -> usize {
        match self {
            Fm::Not(f) | Fm::Q(_, _, f) => 1 + f.size(),
            Fm::Bin(_, a, b) => 1 + a.size() + b.size(),
            _ => 1,
        }
    }
}

#[derive(Clone, Debug, Default)]
pub struct Signature {
    pub preds: BTreeSet<(String, usize)>,
    pub fcs: BTreeSet<VarId>,
    pub syms: BTreeSet<String>,
    pub nums: BTreeSet<i128>,
}

impl Signature {
    pub fn term(&mut self, t: &Tm) {
        t.fcs(&mut self.fcs);
        match t {
            Tm::SymC(s) => {
                self.syms.insert(s.clone());
            }
            Tm::Int(it) => it.nums(&mut self.nums),
            _ => {}
        }
    }
    pub fn of(fs: &[&Fm]) -> Signature {
        let mut s = Signature::default();
        for f in fs {
            f.signature(&mut s);
        }
        s
    }
}

// ---------------------------------------------------------------------------------------
// lowering from anthem's syntax tree (a direct structural mapping)

pub fn sort_of(s: fol::Sort) -> Sort {
    match s {
        fol::Sort::General => Sort::G,
        fol::Sort::Integer => Sort::I,
        fol::Sort::Symbol => Sort::S,
    }
}

pub fn var_of(v: &fol::Variable) -> VarId {
    (v.name.clone(), sort_of(v.sort))
}

pub fn lower_it(t: &fol::IntegerTerm) -> IT {
    match t {
        fol::IntegerTerm::Numeral(n) => IT::Num(*n as i128),
        fol::IntegerTerm::FunctionConstant(c) => IT::Fc(c.clone()),
        fol::IntegerTerm::Variable(v) => IT::Var(v.clone()),
        fol::IntegerTerm::UnaryOperation {
            op: fol::UnaryOperator::Negative,
            arg,
        } => IT::Neg(Box::new(lower_it(arg))),
        fol::IntegerTerm::BinaryOperation { op, lhs, rhs } => IT::Bin(
            match op {
                fol::BinaryOperator::Add => Op::Add,
                fol::BinaryOperator::Subtract => Op::Sub,
                fol::BinaryOperator::Multiply => Op::Mul,
            },
            Box::new(lower_it(lhs)),
            Box::new(lower_it(rhs)),
        ),
    }
}

pub fn lower_tm(t: &fol::GeneralTerm) -> Tm {
    match t {
        fol::GeneralTerm::Infimum => Tm::Inf,
        fol::GeneralTerm::Supremum => Tm::Sup,
        fol::GeneralTerm::FunctionConstant(c) => Tm::Fc(c.clone()),
        fol::GeneralTerm::Variable(v) => Tm::Var(v.clone()),
        fol::GeneralTerm::IntegerTerm(t) => Tm::Int(lower_it(t)),
        fol::GeneralTerm::SymbolicTerm(fol::SymbolicTerm::Symbol(s)) => Tm::SymC(s.clone()),
        fol::GeneralTerm::SymbolicTerm(fol::SymbolicTerm::FunctionConstant(s)) => {
            Tm::SymFc(s.clone())
        }
        fol::GeneralTerm::SymbolicTerm(fol::SymbolicTerm::Variable(s)) => Tm::SymVar(s.clone()),
    }
}

pub fn lower_rel(r: fol::Relation) -> Rel {
    match r {
        fol::Relation::Equal => Rel::Eq,
        fol::Relation::NotEqual => Rel::Ne,
        fol::Relation::Less => Rel::Lt,
        fol::Relation::LessEqual => Rel::Le,
        fol::Relation::Greater => Rel::Gt,
        fol::Relation::GreaterEqual => Rel::Ge,
    }
}

pub fn lower(f: &fol::Formula) -> Fm {
    match f {
        fol::Formula::AtomicFormula(a) => match a {
            fol::AtomicFormula::Truth => Fm::True,
            fol::AtomicFormula::Falsity => Fm::False,
            fol::AtomicFormula::Atom(a) => Fm::Atom(
                a.predicate_symbol.clone(),
                a.terms.iter().map(lower_tm).collect(),
            ),
            fol::AtomicFormula::Comparison(c) => Fm::Cmp(
                lower_tm(&c.term),
                c.guards
                    .iter()
                    .map(|g| (lower_rel(g.relation), lower_tm(&g.term)))
                    .collect(),
            ),
        },
        fol::Formula::UnaryFormula {
            connective: fol::UnaryConnective::Negation,
            formula,
        } => Fm::Not(Box::new(lower(formula))),
        fol::Formula::BinaryFormula {
            connective,
            lhs,
            rhs,
        } => Fm::Bin(
            match connective {
                fol::BinaryConnective::Conjunction => Conn::And,
                fol::BinaryConnective::Disjunction => Conn::Or,
                fol::BinaryConnective::Implication => Conn::Imp,
                fol::BinaryConnective::ReverseImplication => Conn::Rimp,
                fol::BinaryConnective::Equivalence => Conn::Iff,
            },
            Box::new(lower(lhs)),
            Box::new(lower(rhs)),
        ),
        fol::Formula::QuantifiedFormula {
            quantification,
            formula,
        } => Fm::Q(
            quantification.quantifier == fol::Quantifier::Forall,
            quantification.variables.iter().map(var_of).collect(),
            Box::new(lower(formula)),
        ),
    }
}
