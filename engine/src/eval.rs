//! Evaluator for the IR: classical and here-and-there satisfaction over the standard domain.
//!
//! Window mode: quantifiers are relativised to a finite window (two-valued).
//! Exact mode: three-valued; a definite answer is the truth value over the infinite standard
//! domain. Quantifiers are eliminated through finite candidate sets that are supersets of the
//! values that can make the body true (false); where no such set exists a probe window is
//! searched for a witness and the answer is `None` (unknown) when none is found.
use crate::dom::{Interp, Sort, Val};
use crate::ir::{Conn, Fm, IT, Op, Rel, Tm, VarId};
use std::cell::Cell;
use std::collections::BTreeSet;

#[derive(Clone, Debug, Default)]
pub struct Env {
    stack: Vec<(VarId, Option<Val>)>,
}

impl Env {
    pub fn new() -> Env {
        Env { stack: vec![] }
    }
    pub fn from_pairs(pairs: &[(VarId, Val)]) -> Env {
        Env {
            stack: pairs.iter().map(|(k, v)| (k.clone(), Some(v.clone()))).collect(),
        }
    }
    pub fn len(&self) -> usize {
        self.stack.len()
    }
    pub fn truncate(&mut self, n: usize) {
        self.stack.truncate(n)
    }
    pub fn push(&mut self, v: VarId, val: Option<Val>) {
        self.stack.push((v, val))
    }
    /// innermost binding: None = not in scope, Some(None) = in scope but unbound
    pub fn get(&self, name: &str, sort: Sort) -> Option<&Option<Val>> {
        self.stack
            .iter()
            .rev()
            .find(|((n, s), _)| *s == sort && n == name)
            .map(|(_, v)| v)
    }
    pub fn set_innermost(&mut self, v: &VarId, val: Option<Val>) {
        let slot = self
            .stack
            .iter_mut()
            .rev()
            .find(|(k, _)| k == v)
            .expect("variable in scope");
        slot.1 = val;
    }
    pub fn pairs(&self) -> Vec<(VarId, Val)> {
        self.stack
            .iter()
            .filter_map(|(k, v)| v.clone().map(|v| (k.clone(), v)))
            .collect()
    }
}

#[derive(Clone, Copy, Debug, PartialEq, Eq)]
pub enum World {
    H,
    T,
}

#[derive(Debug)]
pub enum TErr {
    Unbound,
    Overflow,
}

pub struct Ev<'a> {
    pub h: &'a Interp,
    pub t: &'a Interp,
    /// values used for relativised quantifiers (window mode) or for probing (exact mode)
    pub window: &'a [Val],
    pub exact: bool,
    pub budget: Cell<i64>,
    pub exhausted: Cell<bool>,
    /// when set, every exact "no candidate works" answer is cross-checked against the probe window
    pub paranoid: bool,
}

const RANGE_CAP: i128 = 300;

impl<'a> Ev<'a> {
    pub fn classical(i: &'a Interp, window: &'a [Val], exact: bool) -> Ev<'a> {
        Ev {
            h: i,
            t: i,
            window,
            exact,
            budget: Cell::new(4_000_000),
            exhausted: Cell::new(false),
            paranoid: false,
        }
    }
    pub fn ht(h: &'a Interp, t: &'a Interp, window: &'a [Val], exact: bool) -> Ev<'a> {
        debug_assert!(h.subset_of(t));
        Ev {
            h,
            t,
            window,
            exact,
            budget: Cell::new(4_000_000),
            exhausted: Cell::new(false),
            paranoid: false,
        }
    }
    pub fn with_budget(self, b: i64) -> Self {
        self.budget.set(b);
        self
    }

    fn tick(&self) -> Option<()> {
        let b = self.budget.get() - 1;
        self.budget.set(b);
        if b <= 0 {
            self.exhausted.set(true);
            None
        } else {
            Some(())
        }
    }

    fn interp(&self, w: World) -> &Interp {
        match w {
            World::H => self.h,
            World::T => self.t,
        }
    }

    // ------------------------------------------------------------------ terms
    pub fn it(&self, t: &IT, env: &Env) -> Result<i128, TErr> {
        Ok(match t {
            IT::Num(n) => *n,
            IT::Var(v) => match env.get(v, Sort::I) {
                Some(Some(Val::Int(n))) => *n,
                Some(Some(other)) => panic!("integer variable {v} bound to {other:?}"),
                _ => return Err(TErr::Unbound),
            },
            IT::Fc(c) => match self.t.fcs.get(&(c.clone(), Sort::I)) {
                Some(Val::Int(n)) => *n,
                other => panic!("integer function constant {c} has value {other:?}"),
            },
            IT::Neg(a) => self.it(a, env)?.checked_neg().ok_or(TErr::Overflow)?,
            IT::Bin(op, a, b) => {
                let a = self.it(a, env)?;
                let b = self.it(b, env)?;
                match op {
                    Op::Add => a.checked_add(b),
                    Op::Sub => a.checked_sub(b),
                    Op::Mul => a.checked_mul(b),
                }
                .ok_or(TErr::Overflow)?
            }
        })
    }

    pub fn tm(&self, t: &Tm, env: &Env) -> Result<Val, TErr> {
        Ok(match t {
            Tm::Inf => Val::Inf,
            Tm::Sup => Val::Sup,
            Tm::Var(v) => match env.get(v, Sort::G) {
                Some(Some(x)) => x.clone(),
                _ => return Err(TErr::Unbound),
            },
            Tm::Fc(c) => self
                .t
                .fcs
                .get(&(c.clone(), Sort::G))
                .unwrap_or_else(|| panic!("general function constant {c} has no value"))
                .clone(),
            Tm::Int(it) => Val::Int(self.it(it, env)?),
            Tm::SymC(s) => Val::Sym(s.clone()),
            Tm::SymVar(v) => match env.get(v, Sort::S) {
                Some(Some(x @ Val::Sym(_))) => x.clone(),
                Some(Some(other)) => panic!("symbol variable {v} bound to {other:?}"),
                _ => return Err(TErr::Unbound),
            },
            Tm::SymFc(c) => match self.t.fcs.get(&(c.clone(), Sort::S)) {
                Some(x @ Val::Sym(_)) => x.clone(),
                other => panic!("symbolic function constant {c} has value {other:?}"),
            },
        })
    }

    // ------------------------------------------------------------------ satisfaction
    pub fn sat(&self, f: &Fm, env: &mut Env, w: World) -> Option<bool> {
        self.tick()?;
        match f {
            Fm::True => Some(true),
            Fm::False => Some(false),
            Fm::Atom(p, ts) => {
                let mut vals = Vec::with_capacity(ts.len());
                for t in ts {
                    vals.push(self.tm(t, env).ok()?);
                }
                Some(self.interp(w).holds(p, &vals))
            }
            Fm::Cmp(t, gs) => {
                let mut lhs = self.tm(t, env).ok()?;
                let mut result = true;
                for (r, t) in gs {
                    let rhs = self.tm(t, env).ok()?;
                    if !r.holds(&lhs, &rhs) {
                        result = false;
                    }
                    lhs = rhs;
                }
                Some(result)
            }
            Fm::IsInt(t) => Some(matches!(self.tm(t, env).ok()?, Val::Int(_))),
            Fm::IsSym(t) => Some(matches!(self.tm(t, env).ok()?, Val::Sym(_))),
            Fm::Not(g) => self.sat(g, env, World::T).map(|b| !b),
            Fm::Bin(c, a, b) => match c {
                Conn::And => k_and(self.sat(a, env, w), || self.sat(b, env, w)),
                Conn::Or => k_or(self.sat(a, env, w), || self.sat(b, env, w)),
                Conn::Imp => self.imp(a, b, env, w),
                Conn::Rimp => self.imp(b, a, env, w),
                Conn::Iff => k_and(self.imp(a, b, env, w), || self.imp(b, a, env, w)),
            },
            Fm::Q(forall, vs, g) => self.quant(*forall, vs, g, env, w),
        }
    }

    fn imp(&self, a: &Fm, b: &Fm, env: &mut Env, w: World) -> Option<bool> {
        let at = |w: World, env: &mut Env| -> Option<bool> {
            k_or(self.sat(a, env, w).map(|x| !x), || self.sat(b, env, w))
        };
        match w {
            World::T => at(World::T, env),
            World::H => {
                if std::ptr::eq(self.h, self.t) {
                    at(World::T, env)
                } else {
                    k_and(at(World::H, env), || at(World::T, env))
                }
            }
        }
    }

    fn quant(&self, forall: bool, vs: &[VarId], g: &Fm, env: &mut Env, w: World) -> Option<bool> {
        let mut vars: Vec<VarId> = vec![];
        for v in vs {
            if !vars.contains(v) {
                vars.push(v.clone());
            }
        }
        let base = env.len();
        for v in &vars {
            env.push(v.clone(), None);
        }
        let want = !forall;
        let r = self.elim(&vars, g, env, w, want);
        env.truncate(base);
        r.map(|found| if forall { !found } else { found })
    }

    /// Some(true): an assignment of `rem` gives sat(g) == want; Some(false): none does.
    fn elim(&self, rem: &[VarId], g: &Fm, env: &mut Env, w: World, want: bool) -> Option<bool> {
        if rem.is_empty() {
            return self.sat(g, env, w).map(|b| b == want);
        }
        self.tick()?;
        if !self.exact {
            let v = &rem[0];
            let rest = &rem[1..];
            let mut unknown = false;
            for val in self.window.iter().filter(|x| v.1.admits(x)) {
                env.set_innermost(v, Some(val.clone()));
                match self.elim(rest, g, env, w, want) {
                    Some(true) => {
                        env.set_innermost(v, None);
                        return Some(true);
                    }
                    None => unknown = true,
                    Some(false) => {}
                }
            }
            env.set_innermost(v, None);
            return if unknown { None } else { Some(false) };
        }
        // exact mode: a variable with a finite candidate set first
        let mut choice: Option<(usize, BTreeSet<Val>)> = None;
        for (i, v) in rem.iter().enumerate() {
            let joinable: Vec<VarId> = rem.iter().filter(|x| *x != v).cloned().collect();
            if let Some(set) = self.cands(g, v, &joinable, env, want, w, 0) {
                let better = match &choice {
                    None => true,
                    Some((_, s)) => set.len() < s.len(),
                };
                if better {
                    let small = set.len() <= 1;
                    choice = Some((i, set));
                    if small {
                        break;
                    }
                }
            }
            if self.exhausted.get() {
                return None;
            }
        }
        let (idx, values, is_exact): (usize, Vec<Val>, bool) = match choice {
            Some((i, set)) => (i, set.into_iter().collect(), true),
            None => match self.representatives(g, &rem[0], env) {
                Some(reps) => (0, reps, true),
                None => (0, self.window.to_vec(), false),
            },
        };
        let v = rem[idx].clone();
        let rest: Vec<VarId> = rem
            .iter()
            .enumerate()
            .filter(|(i, _)| *i != idx)
            .map(|(_, x)| x.clone())
            .collect();
        let mut unknown = false;
        for val in values.iter().filter(|x| v.1.admits(x)) {
            env.set_innermost(&v, Some(val.clone()));
            match self.elim(&rest, g, env, w, want) {
                Some(true) => {
                    env.set_innermost(&v, None);
                    return Some(true);
                }
                None => unknown = true,
                Some(false) => {}
            }
        }
        if is_exact && !unknown && self.paranoid {
            for val in self.window.iter().filter(|x| v.1.admits(x)) {
                if values.contains(val) {
                    continue;
                }
                env.set_innermost(&v, Some(val.clone()));
                if self.elim(&rest, g, env, w, want) == Some(true) {
                    panic!(
                        "oracle inconsistency: candidate set {:?} for {:?} misses witness {:?} in {:?}",
                        values, v, val, g
                    );
                }
            }
        }
        env.set_innermost(&v, None);
        if unknown || !is_exact { None } else { Some(false) }
    }

    // ------------------------------------------------------------------ representatives
    /// A complete set of representatives for the values of `x` in `g`, available when `g` is a
    /// formula of pure equality logic: predicate atoms, `=` / `!=` between variables and constants,
    /// sort tests, connectives and quantifiers - no order comparison and no arithmetic anywhere.
    /// Let R be the finite set of values that occur in an extent (of either world), as a constant
    /// of `g`, as the value of a placeholder or of a variable bound so far, plus #inf and #sup.
    /// Every permutation of the domain that fixes R pointwise and maps integers to integers and
    /// symbols to symbols is an automorphism of the structure `g` talks about, so the truth value
    /// of `g` is the same for all integers outside R and the same for all symbols outside R:
    /// R plus one fresh integer plus one fresh symbol is complete. (Inner variables are eliminated
    /// the same way with the outer value added to R, so two distinct fresh values are available
    /// where a formula needs them.)
    fn representatives(&self, g: &Fm, x: &VarId, env: &Env) -> Option<Vec<Val>> {
        if !pure_equality_logic(g) {
            return None;
        }
        let mut r: BTreeSet<Val> = BTreeSet::new();
        for i in [self.h, self.t] {
            for e in i.preds.values() {
                for tuple in e {
                    r.extend(tuple.iter().cloned());
                }
                if r.len() > 600 {
                    return None;
                }
            }
            r.extend(i.fcs.values().cloned());
        }
        constants_of(g, &mut r);
        for (_, v) in env.pairs() {
            r.insert(v);
        }
        r.insert(Val::Inf);
        r.insert(Val::Sup);
        let fresh_int = r.iter().filter_map(|v| if let Val::Int(n) = v { Some(*n) } else { None }).max().map(|n| n + 1).unwrap_or(0);
        let mut fresh_sym = "zzfresh".to_string();
        while r.contains(&Val::Sym(fresh_sym.clone())) {
            fresh_sym.push('z');
        }
        r.insert(Val::Int(fresh_int));
        r.insert(Val::Sym(fresh_sym));
        Some(r.into_iter().filter(|v| x.1.admits(v)).collect())
    }

    // ------------------------------------------------------------------ candidate sets
    /// A finite superset of the values of `x` for which `g` can evaluate to `want` at world `w`
    /// (for some values of the other unbound variables), or None if none is available.
    fn cands(
        &self,
        g: &Fm,
        x: &VarId,
        joinable: &[VarId],
        env: &mut Env,
        want: bool,
        w: World,
        depth: usize,
    ) -> Option<BTreeSet<Val>> {
        self.tick()?;
        if let Some(s) = self.direct(g, x, env, want, w, depth) {
            return Some(s);
        }
        if depth >= 6 {
            return None;
        }
        for (i, y) in joinable.iter().enumerate() {
            let Some(sy) = self.direct(g, y, env, want, w, depth + 1) else {
                continue;
            };
            if sy.len() > 64 {
                continue;
            }
            let rest: Vec<VarId> = joinable
                .iter()
                .enumerate()
                .filter(|(j, _)| *j != i)
                .map(|(_, v)| v.clone())
                .collect();
            let mut union = BTreeSet::new();
            let mut ok = true;
            for val in sy.iter().filter(|v| y.1.admits(v)) {
                env.set_innermost(y, Some(val.clone()));
                match self.cands(g, x, &rest, env, want, w, depth + 1) {
                    Some(s) => union.extend(s),
                    None => {
                        ok = false;
                        break;
                    }
                }
            }
            env.set_innermost(y, None);
            if ok {
                return Some(union);
            }
            if self.exhausted.get() {
                return None;
            }
        }
        None
    }

    fn direct(
        &self,
        g: &Fm,
        x: &VarId,
        env: &mut Env,
        want: bool,
        w: World,
        depth: usize,
    ) -> Option<BTreeSet<Val>> {
        self.tick()?;
        match g {
            Fm::True => {
                if want {
                    None
                } else {
                    Some(BTreeSet::new())
                }
            }
            Fm::False => {
                if want {
                    Some(BTreeSet::new())
                } else {
                    None
                }
            }
            Fm::IsInt(_) | Fm::IsSym(_) => None,
            Fm::Atom(p, ts) => {
                if !want {
                    return None;
                }
                // positive: x must match some tuple of the (there-)extent at a solvable position
                for (i, t) in ts.iter().enumerate() {
                    if !tm_mentions(t, x) {
                        continue;
                    }
                    let mut out = BTreeSet::new();
                    let mut ok = true;
                    for tuple in self.t.ext(p, ts.len()) {
                        match self.solve_const(t, x, &tuple[i], env) {
                            Some(s) => out.extend(s),
                            None => {
                                ok = false;
                                break;
                            }
                        }
                    }
                    if ok {
                        return Some(out);
                    }
                }
                None
            }
            Fm::Cmp(t, gs) => {
                if want {
                    let mut best: Option<BTreeSet<Val>> = None;
                    let mut lhs = t;
                    for (r, rhs) in gs {
                        if *r == Rel::Eq {
                            if let Some(s) = self.solve_eq(lhs, rhs, x, env) {
                                best = Some(smaller(best, s));
                            }
                        }
                        lhs = rhs;
                    }
                    if let Some(s) = self.bounds(&[g], x, env) {
                        best = Some(smaller(best, s));
                    }
                    best
                } else if gs.len() == 1 && gs[0].0 == Rel::Ne {
                    self.solve_eq(t, &gs[0].1, x, env)
                } else {
                    None
                }
            }
            Fm::Not(a) => self.direct(a, x, env, !want, World::T, depth),
            Fm::Bin(c, a, b) => {
                let (c, a, b) = match c {
                    Conn::Rimp => (Conn::Imp, b, a),
                    other => (*other, a, b),
                };
                match (c, want) {
                    (Conn::And, true) => {
                        let mut parts = vec![];
                        flatten(g, Conn::And, &mut parts);
                        let mut best: Option<BTreeSet<Val>> = self.bounds(&parts, x, env);
                        for p in parts {
                            if best.as_ref().is_some_and(|s| s.len() <= 2) {
                                break;
                            }
                            if let Some(s) = self.direct(p, x, env, true, w, depth) {
                                best = Some(smaller(best, s));
                            }
                        }
                        best
                    }
                    (Conn::Or, false) => {
                        let mut parts = vec![];
                        flatten(g, Conn::Or, &mut parts);
                        let mut best: Option<BTreeSet<Val>> = None;
                        for p in parts {
                            if best.as_ref().is_some_and(|s| s.len() <= 2) {
                                break;
                            }
                            if let Some(s) = self.direct(p, x, env, false, w, depth) {
                                best = Some(smaller(best, s));
                            }
                        }
                        best
                    }
                    (Conn::And, false) | (Conn::Or, true) => {
                        let mut s = self.direct(a, x, env, want, w, depth)?;
                        s.extend(self.direct(b, x, env, want, w, depth)?);
                        Some(s)
                    }
                    (Conn::Imp, true) => {
                        let mut s = self.direct(a, x, env, false, World::T, depth)?;
                        s.extend(self.direct(b, x, env, true, World::T, depth)?);
                        Some(s)
                    }
                    (Conn::Imp, false) => {
                        let s1 = self.direct(a, x, env, true, World::T, depth);
                        if s1.as_ref().is_some_and(|s| s.len() <= 2) {
                            return s1;
                        }
                        let s2 = self.direct(b, x, env, false, w, depth);
                        match (s1, s2) {
                            (Some(a), Some(b)) => Some(if a.len() <= b.len() { a } else { b }),
                            (a, b) => a.or(b),
                        }
                    }
                    (Conn::Iff, false) => {
                        let mut s = self.direct(a, x, env, true, World::T, depth)?;
                        s.extend(self.direct(b, x, env, true, World::T, depth)?);
                        Some(s)
                    }
                    (Conn::Iff, true) => None,
                    (Conn::Rimp, _) => unreachable!(),
                }
            }
            Fm::Q(_, vs, inner) => {
                if vs.contains(x) {
                    return None;
                }
                let mut vars: Vec<VarId> = vec![];
                for v in vs {
                    if !vars.contains(v) {
                        vars.push(v.clone());
                    }
                }
                let base = env.len();
                for v in &vars {
                    env.push(v.clone(), None);
                }
                let r = self.cands(inner, x, &vars, env, want, w, depth);
                env.truncate(base);
                r
            }
        }
    }

    /// integer range from lower and upper bounds on the plain variable x found in the conjuncts
    fn bounds(&self, parts: &[&Fm], x: &VarId, env: &Env) -> Option<BTreeSet<Val>> {
        if x.1 == Sort::S {
            return None;
        }
        let mut lo: Option<i128> = None;
        let mut hi: Option<i128> = None;
        let is_x = |t: &Tm| match (t, x.1) {
            (Tm::Var(n), Sort::G) => *n == x.0,
            (Tm::Int(IT::Var(n)), Sort::I) => *n == x.0,
            _ => false,
        };
        for p in parts {
            let Fm::Cmp(t, gs) = p else { continue };
            let mut lhs = t;
            for (r, rhs) in gs {
                // normalise to  x REL c
                let (rel, other) = if is_x(lhs) && !is_x(rhs) {
                    (*r, rhs)
                } else if is_x(rhs) && !is_x(lhs) {
                    (
                        match r {
                            Rel::Lt => Rel::Gt,
                            Rel::Le => Rel::Ge,
                            Rel::Gt => Rel::Lt,
                            Rel::Ge => Rel::Le,
                            o => *o,
                        },
                        lhs,
                    )
                } else {
                    lhs = rhs;
                    continue;
                };
                if let Ok(Val::Int(k)) = self.tm(other, env) {
                    match rel {
                        Rel::Lt => hi = Some(hi.map_or(k - 1, |h| h.min(k - 1))),
                        Rel::Le => hi = Some(hi.map_or(k, |h| h.min(k))),
                        Rel::Gt => lo = Some(lo.map_or(k + 1, |l| l.max(k + 1))),
                        Rel::Ge => lo = Some(lo.map_or(k, |l| l.max(k))),
                        Rel::Eq | Rel::Ne => {}
                    }
                }
                lhs = rhs;
            }
        }
        match (lo, hi) {
            (Some(l), Some(h)) => {
                if h < l {
                    Some(BTreeSet::new())
                } else if h - l <= RANGE_CAP {
                    Some((l..=h).map(Val::Int).collect())
                } else {
                    None
                }
            }
            _ => None,
        }
    }

    /// values of x for which term `t` evaluates to the constant `target`
    fn solve_const(&self, t: &Tm, x: &VarId, target: &Val, env: &Env) -> Option<BTreeSet<Val>> {
        match (t, x.1) {
            (Tm::Var(n), Sort::G) if *n == x.0 => Some(BTreeSet::from([target.clone()])),
            (Tm::SymVar(n), Sort::S) if *n == x.0 => Some(match target {
                Val::Sym(_) => BTreeSet::from([target.clone()]),
                _ => BTreeSet::new(),
            }),
            (Tm::Int(it), Sort::I) => {
                let (a, b) = self.linear(it, x, env)?;
                let Val::Int(k) = target else {
                    return Some(BTreeSet::new());
                };
                solve_linear(a, b, 0, *k)
            }
            _ => None,
        }
    }

    fn solve_eq(&self, l: &Tm, r: &Tm, x: &VarId, env: &Env) -> Option<BTreeSet<Val>> {
        let ml = tm_mentions(l, x);
        let mr = tm_mentions(r, x);
        match (ml, mr) {
            (false, false) => None,
            (true, false) => {
                let v = self.tm(r, env).ok()?;
                self.solve_const(l, x, &v, env)
            }
            (false, true) => {
                let v = self.tm(l, env).ok()?;
                self.solve_const(r, x, &v, env)
            }
            (true, true) => match (l, r) {
                (Tm::Int(a), Tm::Int(b)) => {
                    let (a1, b1) = self.linear(a, x, env)?;
                    let (a2, b2) = self.linear(b, x, env)?;
                    solve_linear(a1, b1, a2, b2)
                }
                _ => None,
            },
        }
    }

    /// t == a*x + b with every other variable bound
    fn linear(&self, t: &IT, x: &VarId, env: &Env) -> Option<(i128, i128)> {
        match t {
            IT::Num(n) => Some((0, *n)),
            IT::Fc(_) => Some((0, self.it(t, env).ok()?)),
            IT::Var(v) => {
                if x.1 == Sort::I && *v == x.0 {
                    match env.get(v, Sort::I) {
                        Some(None) => Some((1, 0)),
                        Some(Some(Val::Int(n))) => Some((0, *n)),
                        _ => None,
                    }
                } else {
                    Some((0, self.it(t, env).ok()?))
                }
            }
            IT::Neg(a) => {
                let (a, b) = self.linear(a, x, env)?;
                Some((a.checked_neg()?, b.checked_neg()?))
            }
            IT::Bin(op, l, r) => {
                let (a1, b1) = self.linear(l, x, env)?;
                let (a2, b2) = self.linear(r, x, env)?;
                match op {
                    Op::Add => Some((a1.checked_add(a2)?, b1.checked_add(b2)?)),
                    Op::Sub => Some((a1.checked_sub(a2)?, b1.checked_sub(b2)?)),
                    Op::Mul => {
                        if a1 == 0 {
                            Some((b1.checked_mul(a2)?, b1.checked_mul(b2)?))
                        } else if a2 == 0 {
                            Some((a1.checked_mul(b2)?, b1.checked_mul(b2)?))
                        } else {
                            None
                        }
                    }
                }
            }
        }
    }
}

fn plain_term(t: &Tm) -> bool {
    match t {
        Tm::Int(IT::Num(_)) | Tm::Int(IT::Var(_)) | Tm::Int(IT::Fc(_)) => true,
        Tm::Int(_) => false,
        _ => true,
    }
}

/// predicate atoms over plain terms, = and != between plain terms, sort tests, connectives, quantifiers
fn pure_equality_logic(g: &Fm) -> bool {
    match g {
        Fm::True | Fm::False => true,
        Fm::Atom(_, ts) => ts.iter().all(plain_term),
        Fm::Cmp(t, gs) => plain_term(t) && gs.iter().all(|(r, u)| matches!(r, Rel::Eq | Rel::Ne) && plain_term(u)),
        Fm::IsInt(t) | Fm::IsSym(t) => plain_term(t),
        Fm::Not(f) => pure_equality_logic(f),
        Fm::Bin(_, a, b) => pure_equality_logic(a) && pure_equality_logic(b),
        Fm::Q(_, _, f) => pure_equality_logic(f),
    }
}

fn constants_of(g: &Fm, out: &mut BTreeSet<Val>) {
    fn tm(t: &Tm, out: &mut BTreeSet<Val>) {
        match t {
            Tm::Inf => {
                out.insert(Val::Inf);
            }
            Tm::Sup => {
                out.insert(Val::Sup);
            }
            Tm::SymC(s) => {
                out.insert(Val::Sym(s.clone()));
            }
            Tm::Int(IT::Num(n)) => {
                out.insert(Val::Int(*n));
            }
            _ => {}
        }
    }
    match g {
        Fm::True | Fm::False => {}
        Fm::Atom(_, ts) => ts.iter().for_each(|t| tm(t, out)),
        Fm::Cmp(t, gs) => {
            tm(t, out);
            gs.iter().for_each(|(_, u)| tm(u, out));
        }
        Fm::IsInt(t) | Fm::IsSym(t) => tm(t, out),
        Fm::Not(f) => constants_of(f, out),
        Fm::Bin(_, a, b) => {
            constants_of(a, out);
            constants_of(b, out);
        }
        Fm::Q(_, _, f) => constants_of(f, out),
    }
}

/// solutions of a1*x + b1 = a2*x + b2 over the integers; None = unconstrained
fn solve_linear(a1: i128, b1: i128, a2: i128, b2: i128) -> Option<BTreeSet<Val>> {
    let a = a1.checked_sub(a2)?;
    let c = b2.checked_sub(b1)?;
    if a == 0 {
        if c == 0 { None } else { Some(BTreeSet::new()) }
    } else if c % a == 0 {
        Some(BTreeSet::from([Val::Int(c / a)]))
    } else {
        Some(BTreeSet::new())
    }
}

fn smaller(a: Option<BTreeSet<Val>>, b: BTreeSet<Val>) -> BTreeSet<Val> {
    match a {
        Some(a) if a.len() <= b.len() => a,
        _ => b,
    }
}

fn flatten<'f>(f: &'f Fm, c: Conn, out: &mut Vec<&'f Fm>) {
    match f {
        Fm::Bin(k, a, b) if *k == c => {
            flatten(a, c, out);
            flatten(b, c, out);
        }
        other => out.push(other),
    }
}

fn it_mentions(t: &IT, x: &VarId) -> bool {
    match t {
        IT::Var(v) => x.1 == Sort::I && *v == x.0,
        IT::Num(_) | IT::Fc(_) => false,
        IT::Neg(a) => it_mentions(a, x),
        IT::Bin(_, a, b) => it_mentions(a, x) || it_mentions(b, x),
    }
}

fn tm_mentions(t: &Tm, x: &VarId) -> bool {
    match t {
        Tm::Var(v) => x.1 == Sort::G && *v == x.0,
        Tm::SymVar(v) => x.1 == Sort::S && *v == x.0,
        Tm::Int(it) => it_mentions(it, x),
        _ => false,
    }
}

fn k_and(a: Option<bool>, b: impl FnOnce() -> Option<bool>) -> Option<bool> {
    match a {
        Some(false) => Some(false),
        Some(true) => b(),
        None => match b() {
            Some(false) => Some(false),
            _ => None,
        },
    }
}

fn k_or(a: Option<bool>, b: impl FnOnce() -> Option<bool>) -> Option<bool> {
    match a {
        Some(true) => Some(true),
        Some(false) => b(),
        None => match b() {
            Some(true) => Some(true),
            _ => None,
        },
    }
}
