//! Running the real anthem binary (built from /repo's working tree by ./check).
use std::io::{Read, Write};
use std::path::{Path, PathBuf};
use std::process::{Command, Stdio};
use std::sync::atomic::{AtomicU64, Ordering};
use std::time::{Duration, Instant};

pub fn anthem_bin() -> Option<PathBuf> {
    let p = PathBuf::from(std::env::var("ANTHEM_BIN").ok()?);
    if p.exists() { Some(p) } else { None }
}

#[derive(Clone, Debug)]
pub struct RunResult {
    pub code: Option<i32>,
    pub signal: Option<i32>,
    pub stdout: String,
    pub stderr: String,
    pub timed_out: bool,
    pub wall: Duration,
}

pub fn run(bin: &Path, args: &[&str], stdin: Option<&str>) -> RunResult {
    run_env(bin, args, stdin, &[], Duration::from_secs(120))
}

pub fn run_env(
    bin: &Path,
    args: &[&str],
    stdin: Option<&str>,
    env: &[(&str, String)],
    limit: Duration,
) -> RunResult {
    use std::os::unix::process::ExitStatusExt;
    let start = Instant::now();
    let mut cmd = Command::new(bin);
    cmd.args(args)
        .stdin(Stdio::piped())
        .stdout(Stdio::piped())
        .stderr(Stdio::piped())
        .env("RUST_BACKTRACE", "0");
    for (k, v) in env {
        cmd.env(k, v);
    }
    let mut child = cmd.spawn().expect("anthem binary can be started");
    let input = stdin.map(|s| s.as_bytes().to_vec());
    let mut sin = child.stdin.take();
    let writer = std::thread::spawn(move || {
        if let (Some(mut s), Some(i)) = (sin.take(), input) {
            let _ = s.write_all(&i);
        }
    });
    let mut out = child.stdout.take().unwrap();
    let mut err = child.stderr.take().unwrap();
    let t_out = std::thread::spawn(move || {
        let mut b = vec![];
        let _ = out.read_to_end(&mut b);
        b
    });
    let t_err = std::thread::spawn(move || {
        let mut b = vec![];
        let _ = err.read_to_end(&mut b);
        b
    });
    let mut timed_out = false;
    let status = loop {
        match child.try_wait() {
            Ok(Some(s)) => break Some(s),
            Ok(None) => {
                if start.elapsed() > limit {
                    timed_out = true;
                    let _ = child.kill();
                    break child.wait().ok();
                }
                std::thread::sleep(Duration::from_millis(2));
            }
            Err(_) => break None,
        }
    };
    let _ = writer.join();
    let stdout = String::from_utf8_lossy(&t_out.join().unwrap_or_default()).to_string();
    let stderr = String::from_utf8_lossy(&t_err.join().unwrap_or_default()).to_string();
    RunResult {
        code: status.and_then(|s| s.code()),
        signal: status.and_then(|s| s.signal()),
        stdout,
        stderr,
        timed_out,
        wall: start.elapsed(),
    }
}

static COUNTER: AtomicU64 = AtomicU64::new(0);

/// a fresh directory under /verif/target/scratch (removed by the caller)
pub fn scratch_dir(tag: &str) -> PathBuf {
    let root = std::env::var("VERIF_ROOT").unwrap_or_else(|_| "/verif".into());
    let n = COUNTER.fetch_add(1, Ordering::SeqCst);
    let d = PathBuf::from(root)
        .join("target")
        .join("scratch")
        .join(format!("{tag}-{}-{n}", std::process::id()));
    let _ = std::fs::remove_dir_all(&d);
    std::fs::create_dir_all(&d).expect("scratch directory");
    d
}

/// sorted (file name, content) pairs of a directory (one level)
pub fn snapshot_dir(dir: &Path) -> Vec<(String, String)> {
    let mut v = vec![];
    if let Ok(rd) = std::fs::read_dir(dir) {
        for e in rd.flatten() {
            if e.path().is_file() {
                let name = e.file_name().to_string_lossy().to_string();
                let content = std::fs::read(e.path()).map(|b| String::from_utf8_lossy(&b).to_string()).unwrap_or_default();
                v.push((name, content));
            }
        }
    }
    v.sort();
    v
}

/// Ways of naming two program files on the command line so that `left` is the first program and
/// `right` the second one (the role of a program follows from the order of the arguments and, inside
/// a directory, from the file names). Writes the files below `dir/in<layout>` and returns the path
/// arguments.
///   0: `a.lp b.lp`                       the plain case
///   1: `n.lp b.lp`                       named against the alphabet
///   2: `d/`                              a directory holding a.lp and b.lp
///   3: `d/b.lp d/`                       a file and then its directory (the file counts twice)
///   4: `v2/prog.lp v1/prog.lp`           the same file name in two directories, against the alphabet
pub const STRONG_LAYOUTS: usize = 5;
pub fn strong_layout(dir: &Path, left: &str, right: &str, layout: usize) -> Vec<String> {
    let d = dir.join(format!("in{layout}"));
    std::fs::create_dir_all(&d).expect("input directory");
    let s = |p: PathBuf| p.to_string_lossy().to_string();
    match layout % STRONG_LAYOUTS {
        0 => {
            std::fs::write(d.join("a.lp"), left).unwrap();
            std::fs::write(d.join("b.lp"), right).unwrap();
            vec![s(d.join("a.lp")), s(d.join("b.lp"))]
        }
        1 => {
            std::fs::write(d.join("n.lp"), left).unwrap();
            std::fs::write(d.join("b.lp"), right).unwrap();
            vec![s(d.join("n.lp")), s(d.join("b.lp"))]
        }
        2 => {
            std::fs::write(d.join("a.lp"), left).unwrap();
            std::fs::write(d.join("b.lp"), right).unwrap();
            vec![s(d.clone())]
        }
        3 => {
            std::fs::write(d.join("b.lp"), left).unwrap();
            std::fs::write(d.join("a.lp"), right).unwrap();
            vec![s(d.join("b.lp")), s(d.clone())]
        }
        _ => {
            std::fs::create_dir_all(d.join("v2")).unwrap();
            std::fs::create_dir_all(d.join("v1")).unwrap();
            std::fs::write(d.join("v2").join("prog.lp"), left).unwrap();
            std::fs::write(d.join("v1").join("prog.lp"), right).unwrap();
            vec![s(d.join("v2").join("prog.lp")), s(d.join("v1").join("prog.lp"))]
        }
    }
}
