//! C04 — completion of a tight program's tau* theory has exactly its stable models;
//! non-completable theories are refused.
use crate::asp_ref;
use crate::checks::c01::{program_pool, program_preds};
use crate::checks::c17::{raw_from_json, raw_json};
use crate::dom::Interp;
use crate::eval::{Env, Ev, World};
use crate::generators::asp::{self as ga, AspCfg};
use crate::generators::fol::{self as g, RawInterp};
use crate::ir::{self, Fm};
use crate::runner::{Check, Outcome, Tier, hash64};
use crate::safe_print::{self, Style};
use anthem::analyzing::tightness::Tightness as _;
use anthem::syntax_tree::asp::mini_gringo as asp;
use anthem::syntax_tree::fol::sigma_0 as fol;
use anthem::translating::classical_reduction::completion::Completion as _;
use anthem::translating::formula_representation::tau_star::TauStar as _;
use indexmap::IndexSet;
use proptest::prelude::*;
use serde_json::{Value, json};

#[derive(Clone, Debug)]
pub struct Case {
    pub program: asp::Program,
    /// which of the head-free predicates are inputs (bit i = i-th such predicate)
    pub input_mask: u8,
    pub raw: RawInterp,
    /// 0 = random interpretation; otherwise pick a reference stable model (index) and
    /// optionally flip one atom
    pub guide: u8,
    pub flip: u16,
}

pub struct C04;

fn cfg() -> AspCfg {
    AspCfg {
        // one name at two arities: completion, tightness and the reference are all keyed by (name, arity)
        preds: vec![("p".into(), 1), ("p".into(), 2), ("q".into(), 1), ("q".into(), 0), ("r".into(), 2), ("s".into(), 0), ("d".into(), 1)],
        vars: vec!["X".into(), "Y".into(), "V1".into(), "V2".into(), "V3".into(), "Z".into(), "Z1".into()],
        syms: vec!["a".into()],
        num_lo: -1,
        num_hi: 3,
        term_depth: 2,
        op_weights: [4, 3, 2, 2, 2, 3],
        max_body: 3,
        max_rules: 4,
        exotic_leaf_weight: 1,
    }
}

pub fn head_free_predicates(p: &asp::Program) -> Vec<(String, usize)> {
    // (own traversal: the reference must not rely on the code under test)
    let heads: Vec<(String, usize)> = p
        .rules
        .iter()
        .filter_map(|r| match &r.head {
            asp::Head::Basic(a) | asp::Head::Choice(a) => Some((a.predicate_symbol.clone(), a.terms.len())),
            asp::Head::Falsity => None,
        })
        .collect();
    program_preds(p).into_iter().filter(|x| !heads.contains(x)).collect()
}

pub fn restrict(i: &Interp, preds: &[(String, usize)]) -> Interp {
    let mut out = Interp::default();
    out.fcs = i.fcs.clone();
    for k in preds {
        if let Some(e) = i.preds.get(k) {
            out.preds.insert(k.clone(), e.clone());
        }
    }
    out
}

impl Check for C04 {
    type Case = Case;
    fn name(&self) -> &'static str {
        "completion"
    }
    fn cases(&self, tier: Tier) -> usize {
        tier.pick(120_000, 2_000_000)
    }
    fn strategy(&self, _tier: Tier) -> BoxedStrategy<Case> {
        let c = cfg();
        (
            ga::shaped_program(&c, 1),
            any::<u8>(),
            g::raw_interp(7, 0, 2, 4),
            prop_oneof![1 => Just(0u8), 2 => 1u8..8],
            any::<u16>(),
        )
            .prop_map(|(program, input_mask, raw, guide, flip)| Case {
                program,
                input_mask,
                raw,
                guide,
                flip,
            })
            .boxed()
    }
    fn rule(&self) -> String {
        "random (80% safe) program that anthem reports tight x a random subset of the head-free predicates as inputs x an interpretation J that is random (1/3) or a reference stable model for random input facts, half of them with one atom flipped (2/3); oracle: J satisfies completion(tau*(P), inputs) (exact classical evaluation) iff J is a stable model of P plus J's input facts (reference semantics); structure: exactly one completed definition per non-input predicate of the theory (also for never-defined ones), none for inputs; non-trivial = verdicts definite and J has a non-empty non-input extent; distinct by program + inputs + J".into()
    }
    fn run(&self, case: &Case) -> Outcome {
        if case.program.rules.is_empty() {
            return Outcome::skip("empty program");
        }
        if !case.program.is_tight() {
            return Outcome::skip("not tight");
        }
        let preds = program_preds(&case.program);
        let free = head_free_predicates(&case.program);
        let inputs: Vec<(String, usize)> = free
            .iter()
            .enumerate()
            .filter(|(i, _)| case.input_mask & (1 << (i % 8)) != 0)
            .map(|(_, p)| p.clone())
            .collect();
        let theory = case.program.clone().tau_star();
        let input_set: IndexSet<fol::Predicate> = inputs
            .iter()
            .map(|(s, a)| fol::Predicate { symbol: s.clone(), arity: *a })
            .collect();
        let text = safe_print::asp_program(&case.program, &Style::plain());
        let Some(completed) = theory.clone().completion(input_set) else {
            return Outcome::fail(
                "refused-tau-star",
                format!("C04: completion refused the tau* theory of a program\n  program: {text}"),
            );
        };
        // structure
        let mut defined: Vec<(String, usize)> = vec![];
        for f in &completed.formulas {
            if let Some(p) = definition_head(f) {
                if defined.contains(&p) {
                    return Outcome::fail("two-definitions", format!("C04: predicate {p:?} has two completed definitions\n  program: {text}\n  completion: {completed}"));
                }
                defined.push(p);
            }
        }
        for p in &preds {
            let is_input = inputs.contains(p);
            if is_input && defined.contains(p) {
                return Outcome::fail("input-completed", format!("C04: input predicate {p:?} received a completed definition\n  program: {text}\n  completion: {completed}"));
            }
            if !is_input && !defined.contains(p) {
                return Outcome::fail("missing-definition", format!("C04: predicate {p:?} has no completed definition\n  program: {text}\n  completion: {completed}"));
            }
        }
        // interpretation
        let pool = program_pool(&case.program);
        let (_, random) = g::build_interp(&case.raw, &preds, &[], &pool);
        let facts = restrict(&random, &inputs);
        let mut guided = false;
        let j: Interp = if case.guide == 0 {
            random
        } else {
            match asp_ref::stable_models(&case.program, &facts, 8) {
                Some(models) if !models.is_empty() => {
                    guided = true;
                    let mut m = models[(case.guide as usize) % models.len()].clone();
                    for p in &preds {
                        m.preds.entry(p.clone()).or_default();
                    }
                    if case.guide % 2 == 0 {
                        // flip one atom over the non-input predicates
                        let non_inputs: Vec<&(String, usize)> = preds.iter().filter(|p| !inputs.contains(p)).collect();
                        if !non_inputs.is_empty() {
                            let (name, arity) = non_inputs[(case.flip as usize) % non_inputs.len()];
                            let tuple: Vec<_> = (0..*arity)
                                .map(|k| pool[((case.flip as usize) / 7 + k * 3) % pool.len()].clone())
                                .collect();
                            let ext = m.preds.entry((name.clone(), *arity)).or_default();
                            if !ext.remove(&tuple) {
                                ext.insert(tuple);
                            }
                        }
                    }
                    m
                }
                _ => random,
            }
        };
        let facts = restrict(&j, &inputs);
        let reference = asp_ref::is_stable(&case.program, &facts, &j);
        let mut emitted = Some(true);
        for f in &completed.formulas {
            let fm = ir::lower(f);
            if !fm.free_vars().is_empty() {
                return Outcome::fail("open-formula", format!("C04: completion produced an open formula {f}"));
            }
            let ev = Ev::classical(&j, &pool, true).with_budget(400_000);
            match ev.sat(&fm, &mut Env::new(), World::T) {
                Some(false) => {
                    emitted = Some(false);
                    break;
                }
                None => emitted = None,
                Some(true) => {}
            }
        }
        let nonempty = preds.iter().any(|p| !inputs.contains(p) && !j.ext(&p.0, p.1).is_empty());
        match (reference, emitted) {
            (Some(a), Some(b)) if a != b => Outcome::fail(
                "completion-vs-stable",
                format!(
                    "C04: J is a stable model of the program with its input facts: {a}; J satisfies the completion: {b}\n  program: {text}\n  inputs: {inputs:?}\n  completion: {completed}\n  J: {}",
                    j.json()
                ),
            ),
            (Some(a), Some(_)) => Outcome::pass(nonempty, hash64(&format!("{text}|{inputs:?}|{:?}", j.preds)))
                .label(format!("stable={a}"))
                .label(format!("guided={guided}"))
                .label(format!("inputs={}", inputs.len().min(3))),
            _ => Outcome::skip("verdict not definite"),
        }
    }
    fn describe(&self, case: &Case) -> Value {
        json!({
            "program": safe_print::asp_program(&case.program, &Style::plain()),
            "input_mask": case.input_mask,
            "raw": raw_json(&case.raw),
            "guide": case.guide,
            "flip": case.flip,
        })
    }
    fn from_replay(&self, j: &Value) -> Option<Case> {
        Some(Case {
            program: j["program"].as_str()?.parse().ok()?,
            input_mask: j["input_mask"].as_u64()? as u8,
            raw: raw_from_json(&j["raw"])?,
            guide: j["guide"].as_u64()? as u8,
            flip: j["flip"].as_u64()? as u16,
        })
    }
}

/// the predicate defined by `forall V (p(V) <-> ...)` (or `p <-> ...`)
pub fn definition_head(f: &fol::Formula) -> Option<(String, usize)> {
    match f {
        fol::Formula::QuantifiedFormula { quantification, formula }
            if quantification.quantifier == fol::Quantifier::Forall =>
        {
            definition_head(formula)
        }
        fol::Formula::BinaryFormula {
            connective: fol::BinaryConnective::Equivalence,
            lhs,
            ..
        } => match &**lhs {
            fol::Formula::AtomicFormula(fol::AtomicFormula::Atom(a)) => {
                Some((a.predicate_symbol.clone(), a.terms.len()))
            }
            _ => None,
        },
        _ => None,
    }
}

// ---------------------------------------------------------------------------------------
// refusal of non-completable theories

#[derive(Clone, Debug)]
pub struct RefusalCase {
    pub program: asp::Program,
    pub mutation: u8,
    pub which: u8,
}

pub struct Refusal;

fn first_head_atom(f: &mut fol::Formula) -> Option<&mut fol::Atom> {
    match f {
        fol::Formula::QuantifiedFormula { formula, .. } => first_head_atom(formula),
        fol::Formula::BinaryFormula {
            connective: fol::BinaryConnective::Implication,
            rhs,
            ..
        } => match &mut **rhs {
            fol::Formula::AtomicFormula(fol::AtomicFormula::Atom(a)) => Some(a),
            _ => None,
        },
        _ => None,
    }
}

impl Check for Refusal {
    type Case = RefusalCase;
    fn name(&self) -> &'static str {
        "refusal"
    }
    fn cases(&self, tier: Tier) -> usize {
        tier.pick(60_000, 800_000)
    }
    fn strategy(&self, _tier: Tier) -> BoxedStrategy<RefusalCase> {
        let c = cfg();
        // (t/3 and u/4: repeated head variables that are not neighbours need three arguments)
        let mut c = c;
        c.preds.push(("t".into(), 3));
        c.preds.push(("u".into(), 4));
        (ga::shaped_program(&c, 1), 0u8..10, any::<u8>())
            .prop_map(|(program, mutation, which)| RefusalCase { program, mutation, which })
            .boxed()
    }
    fn rule(&self) -> String {
        "tau* theory of a random program with exactly one defect injected into one formula with a first-order head: head argument replaced by a numeral / by an integer term / repeated variable (neighbouring, or first and last of three or four) / head variables renamed, swapped, rotated or given another sort in one of two partial definitions of the same predicate / outer quantifier made existential / outer quantifier dropped (free variables); oracle: completion returns None; control: every unmutated tau* theory is completed; non-trivial = a defect could be injected (the program has a rule with a first-order head); distinct by mutated theory text".into()
    }
    fn run(&self, case: &RefusalCase) -> Outcome {
        let theory = case.program.clone().tau_star();
        if theory.clone().completion(IndexSet::new()).is_none() {
            return Outcome::fail(
                "refused-tau-star",
                format!("C04: completion refused a tau* theory\n  program: {}", safe_print::asp_program(&case.program, &Style::plain())),
            );
        }
        let candidates: Vec<usize> = theory
            .formulas
            .iter()
            .enumerate()
            .filter(|(_, f)| {
                let mut g = (*f).clone();
                first_head_atom(&mut g).is_some_and(|a| !a.terms.is_empty())
            })
            .map(|(i, _)| i)
            .collect();
        if candidates.is_empty() {
            return Outcome::skip("no first-order head to mutate");
        }
        let idx = candidates[case.which as usize % candidates.len()];
        let mut mutated = theory.clone();
        let label;
        match case.mutation {
            0 => {
                label = "numeral-argument";
                let a = first_head_atom(&mut mutated.formulas[idx]).unwrap();
                a.terms[0] = fol::GeneralTerm::IntegerTerm(fol::IntegerTerm::Numeral(1));
            }
            1 => {
                label = "integer-term-argument";
                let a = first_head_atom(&mut mutated.formulas[idx]).unwrap();
                a.terms[0] = fol::GeneralTerm::IntegerTerm(fol::IntegerTerm::BinaryOperation {
                    op: fol::BinaryOperator::Add,
                    lhs: Box::new(fol::IntegerTerm::Numeral(1)),
                    rhs: Box::new(fol::IntegerTerm::Numeral(1)),
                });
            }
            2 => {
                label = "repeated-variable";
                let a = first_head_atom(&mut mutated.formulas[idx]).unwrap();
                if a.terms.len() < 2 {
                    return Outcome::skip("head has a single argument");
                }
                a.terms[1] = a.terms[0].clone();
            }
            9 => {
                // the first variable again in the last place, the arguments in between untouched: p(V1, V2, V1)
                label = "repeated-variable-apart";
                let a = first_head_atom(&mut mutated.formulas[idx]).unwrap();
                let n = a.terms.len();
                if n < 3 {
                    return Outcome::skip("head has fewer than three arguments");
                }
                a.terms[n - 1] = a.terms[0].clone();
            }
            3 => {
                label = "mismatched-heads";
                // needs two formulas for the same predicate: duplicate the formula with renamed head variables
                let original = mutated.formulas[idx].clone();
                let renamed = rename_head_variables(original);
                mutated.formulas.push(renamed);
            }
            5 | 6 => {
                // a second partial definition whose head lists the same variables in another order
                label = if case.mutation == 5 { "permuted-head-swap" } else { "permuted-head-rotate" };
                let mut copy = mutated.formulas[idx].clone();
                let a = first_head_atom(&mut copy).unwrap();
                if a.terms.len() < 2 || a.terms[0] == a.terms[1] {
                    return Outcome::skip("head has a single argument");
                }
                if case.mutation == 5 {
                    let n = a.terms.len();
                    a.terms.swap(0, n - 1);
                } else {
                    a.terms.rotate_left(1);
                }
                mutated.formulas.push(copy);
            }
            7 => {
                // a second partial definition whose head variable has another sort
                label = "head-variable-sort";
                let mut copy = mutated.formulas[idx].clone();
                if let fol::Formula::QuantifiedFormula { quantification, .. } = &mut copy {
                    match quantification.variables.first_mut() {
                        Some(v) if v.sort == fol::Sort::General => v.sort = fol::Sort::Integer,
                        _ => return Outcome::skip("formula is not quantified"),
                    }
                } else {
                    return Outcome::skip("formula is not quantified");
                }
                mutated.formulas.push(copy);
            }
            8 => {
                // the outermost quantifier of a rule is existential
                label = "existential-rule";
                if let fol::Formula::QuantifiedFormula { quantification, .. } = &mut mutated.formulas[idx] {
                    quantification.quantifier = fol::Quantifier::Exists;
                } else {
                    return Outcome::skip("formula is not quantified");
                }
            }
            4 => {
                label = "free-variable";
                if let fol::Formula::QuantifiedFormula { formula, .. } = mutated.formulas[idx].clone() {
                    mutated.formulas[idx] = *formula;
                } else {
                    return Outcome::skip("formula is not quantified");
                }
            }
            _ => {
                label = "free-variable";
                if let fol::Formula::QuantifiedFormula { formula, .. } = mutated.formulas[idx].clone() {
                    mutated.formulas[idx] = *formula;
                } else {
                    return Outcome::skip("formula is not quantified");
                }
            }
        }
        let text = mutated.to_string();
        match mutated.clone().completion(IndexSet::new()) {
            None => Outcome::pass(true, hash64(&text)).label(format!("defect={label}")),
            Some(done) => Outcome::fail(
                format!("completed-defective:{label}"),
                format!("C04: completion accepted a theory with the defect '{label}'\n  theory: {text}\n  result: {done}"),
            ),
        }
    }
    fn describe(&self, case: &RefusalCase) -> Value {
        json!({
            "program": safe_print::asp_program(&case.program, &Style::plain()),
            "mutation": case.mutation,
            "which": case.which,
        })
    }
    fn from_replay(&self, j: &Value) -> Option<RefusalCase> {
        Some(RefusalCase {
            program: j["program"].as_str()?.parse().ok()?,
            mutation: j["mutation"].as_u64()? as u8,
            which: j["which"].as_u64()? as u8,
        })
    }
}

fn rename_head_variables(f: fol::Formula) -> fol::Formula {
    // rename every V<i> to W<i> consistently (a closed alpha-variant whose head differs textually)
    fn ren_v(v: &mut fol::Variable) {
        if v.name.starts_with('V') {
            v.name = format!("W{}", &v.name[1..]);
        }
    }
    fn ren_t(t: &mut fol::GeneralTerm) {
        if let fol::GeneralTerm::Variable(v) = t {
            if v.starts_with('V') {
                *v = format!("W{}", &v[1..]);
            }
        }
    }
    fn go(f: &mut fol::Formula) {
        match f {
            fol::Formula::AtomicFormula(fol::AtomicFormula::Atom(a)) => a.terms.iter_mut().for_each(ren_t),
            fol::Formula::AtomicFormula(fol::AtomicFormula::Comparison(c)) => {
                ren_t(&mut c.term);
                c.guards.iter_mut().for_each(|g| ren_t(&mut g.term));
            }
            fol::Formula::AtomicFormula(_) => {}
            fol::Formula::UnaryFormula { formula, .. } => go(formula),
            fol::Formula::BinaryFormula { lhs, rhs, .. } => {
                go(lhs);
                go(rhs);
            }
            fol::Formula::QuantifiedFormula { quantification, formula } => {
                quantification.variables.iter_mut().for_each(ren_v);
                go(formula);
            }
        }
    }
    let mut f = f;
    go(&mut f);
    f
}

#[allow(dead_code)]
fn unused(_: Fm) {}
