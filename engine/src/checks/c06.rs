//! C06 — the TPTP rendering of a formula preserves its meaning.
use crate::checks::c17::{raw_from_json, raw_json};
use crate::dom::Sort;
use crate::eval::{Env, Ev, World};
use crate::generators::fol::{self as g, FolCfg, RawInterp};
use crate::ir::{self, Fm, VarId};
use crate::runner::{Check, Outcome, Tier, hash64};
use crate::safe_print::{self, Style};
use crate::tff::{self, ConstKind};
use anthem::syntax_tree::fol::sigma_0 as fol;
use proptest::prelude::*;
use serde_json::{Value, json};
use std::collections::BTreeMap;

#[derive(Clone, Debug)]
pub struct Case {
    pub f: fol::Formula,
    pub raw: RawInterp,
}

pub struct C06;

fn cfg() -> FolCfg {
    FolCfg {
        preds: vec![("p".into(), 1), ("q".into(), 2), ("s".into(), 0)],
        gvars: vec!["X".into(), "Y".into()],
        // the same name at several sorts: `exists X$i X` binds two variables
        ivars: vec!["N".into(), "X".into(), "M".into()],
        svars: vec!["S".into(), "X".into()],
        syms: vec!["a".into(), "b".into()],
        fcs: vec![("c".into(), Sort::G), ("n".into(), Sort::I), ("k".into(), Sort::S)],
        num_lo: -2,
        num_hi: 3,
        depth: 4,
        max_guards: 4,
        term_depth: 2,
    }
}

pub fn preamble() -> String {
    std::fs::read_to_string("/repo/src/verifying/problem/standard_interpretation.p")
        .expect("the standard preamble of /repo is readable")
}

/// close a formula over its free variables (alternating quantifiers so both kinds occur)
fn close(f: fol::Formula, forall: bool) -> fol::Formula {
    let free: Vec<fol::Variable> = f.free_variables().into_iter().collect();
    if free.is_empty() { f } else { g::quant(forall, free, f) }
}

/// numerals at the limits of the integer type, substituted for one numeral of the formula
fn extremes() -> BoxedStrategy<Option<isize>> {
    prop_oneof![
        12 => Just(None),
        1 => Just(Some(isize::MAX)),
        1 => Just(Some(isize::MIN)),
        1 => Just(Some(isize::MIN + 1)),
        1 => Just(Some(-1)),
    ]
    .boxed()
}

fn plant_it(t: &mut fol::IntegerTerm, n: isize, done: &mut bool) {
    match t {
        fol::IntegerTerm::Numeral(k) if !*done => {
            *k = n;
            *done = true;
        }
        fol::IntegerTerm::UnaryOperation { arg, .. } => plant_it(arg, n, done),
        fol::IntegerTerm::BinaryOperation { lhs, rhs, .. } => {
            plant_it(lhs, n, done);
            plant_it(rhs, n, done);
        }
        _ => {}
    }
}

fn plant(f: &mut fol::Formula, n: isize, done: &mut bool) {
    match f {
        fol::Formula::AtomicFormula(fol::AtomicFormula::Atom(a)) => {
            for t in a.terms.iter_mut() {
                if let fol::GeneralTerm::IntegerTerm(t) = t {
                    plant_it(t, n, done)
                }
            }
        }
        fol::Formula::AtomicFormula(fol::AtomicFormula::Comparison(c)) => {
            if let fol::GeneralTerm::IntegerTerm(t) = &mut c.term {
                plant_it(t, n, done)
            }
            for gd in c.guards.iter_mut() {
                if let fol::GeneralTerm::IntegerTerm(t) = &mut gd.term {
                    plant_it(t, n, done)
                }
            }
        }
        fol::Formula::AtomicFormula(_) => {}
        fol::Formula::UnaryFormula { formula, .. } | fol::Formula::QuantifiedFormula { formula, .. } => {
            plant(formula, n, done)
        }
        fol::Formula::BinaryFormula { lhs, rhs, .. } => {
            plant(lhs, n, done);
            plant(rhs, n, done);
        }
    }
}

fn sort_class(t: &fol::GeneralTerm) -> &'static str {
    match t {
        fol::GeneralTerm::IntegerTerm(_) => "int",
        fol::GeneralTerm::SymbolicTerm(_) => "sym",
        _ => "gen",
    }
}

fn labels(f: &fol::Formula, parent: &str, out: &mut Vec<String>) {
    match f {
        fol::Formula::AtomicFormula(fol::AtomicFormula::Comparison(c)) => {
            out.push(format!("chain{}<{}", c.guards.len(), parent));
            let mut l = &c.term;
            for gd in &c.guards {
                out.push(format!("cmp:{}-{}", sort_class(l), sort_class(&gd.term)));
                l = &gd.term;
            }
        }
        fol::Formula::AtomicFormula(_) => {}
        fol::Formula::UnaryFormula { formula, .. } => labels(formula, "not", out),
        fol::Formula::QuantifiedFormula { formula, quantification } => labels(
            formula,
            if quantification.quantifier == fol::Quantifier::Forall { "forall" } else { "exists" },
            out,
        ),
        fol::Formula::BinaryFormula { connective, lhs, rhs } => {
            let n = format!("{connective:?}");
            labels(lhs, &format!("{n}.L"), out);
            labels(rhs, &format!("{n}.R"), out);
        }
    }
}

/// the problem text the checker assembles around anthem's rendering of `f`
pub fn assemble(f: &fol::Formula) -> (String, BTreeMap<String, ConstKind>) {
    let mut text = preamble();
    let mut constants = BTreeMap::new();
    for (i, p) in f.predicates().into_iter().enumerate() {
        if p.arity == 0 {
            text.push_str(&format!("tff(predicate_{i}, type, {}: $o).\n", p.symbol));
        } else {
            let args = vec!["general"; p.arity].join(" * ");
            text.push_str(&format!("tff(predicate_{i}, type, {}: ({args}) > $o).\n", p.symbol));
        }
    }
    let mut sig = crate::ir::Signature::default();
    crate::ir::lower(f).signature(&mut sig);
    for (i, s) in sig.syms.into_iter().enumerate() {
        text.push_str(&format!("tff(type_symbol_{i}, type, {s}: symbol).\n"));
        constants.insert(s.clone(), ConstKind::Symbol(s));
    }
    for (i, c) in f.function_constants().into_iter().enumerate() {
        let (suffix, ty) = match c.sort {
            fol::Sort::General => ("g", "general"),
            fol::Sort::Integer => ("i", "$int"),
            fol::Sort::Symbol => ("s", "symbol"),
        };
        let name = format!("{}_{suffix}", c.name);
        text.push_str(&format!("tff(type_function_constant_{i}, type, {name}: {ty}).\n"));
        constants.insert(name, ConstKind::Placeholder(c.name.clone()));
    }
    text.push_str(&format!(
        "tff(the_formula, axiom, {}).\n",
        anthem::formatting::fol::sigma_0::tptp::Format(f)
    ));
    (text, constants)
}

impl Check for C06 {
    type Case = Case;
    fn name(&self) -> &'static str {
        "tptp-rendering"
    }
    fn cases(&self, tier: Tier) -> usize {
        tier.pick(300_000, 5_000_000)
    }
    fn strategy(&self, _tier: Tier) -> BoxedStrategy<Case> {
        let c = cfg();
        (
            g::formula(&c),
            any::<bool>(),
            extremes(),
            g::raw_interp(c.preds.len(), c.fcs.len(), 2, 5),
        )
            .prop_map(|(f, fa, ext, raw)| {
                let mut f = f;
                if let Some(n) = ext {
                    plant(&mut f, n, &mut false);
                }
                Case { f: close(f, fa), raw }
            })
            .boxed()
    }
    fn rule(&self) -> String {
        "random closed formula (chained comparisons of length 1..4 under every connective and quantifier, mixed-sort comparisons, negative numerals incl. isize::MIN/MAX, function constants of all sorts) rendered by tptp::Format inside a problem whose preamble is the repository's and whose declarations the checker derives; oracle: strict TFF reader + type checker accept it and the read-back formula has the same truth value as the source in a random interpretation (window mode); non-trivial = at least one comparison below a connective or quantifier; distinct by TPTP text + interpretation".into()
    }
    fn run(&self, case: &Case) -> Outcome {
        let c = cfg();
        let src = ir::lower(&case.f);
        let (text, constants) = assemble(&case.f);
        let shown = safe_print::formula(&case.f, &Style::plain());
        let rendered = text.lines().last().unwrap_or("").to_string();
        let checked = match tff::check(&text) {
            Ok(c) => c,
            Err(e) => {
                return Outcome::fail(
                    format!("rejected:{}", e.class),
                    format!("C06: the rendering is not valid typed TPTP ({}): {}\n  formula: {shown}\n  rendered: {rendered}", e.class, e.message),
                );
            }
        };
        let lowered = match tff::lower_all(&checked, &constants) {
            Ok(l) => l,
            Err(e) => {
                return Outcome::fail(
                    "unreadable",
                    format!("C06: cannot read the rendering back: {e}\n  formula: {shown}\n  rendered: {rendered}"),
                );
            }
        };
        let Some((_, _, back)) = lowered.iter().find(|(n, _, _)| n == "the_formula") else {
            return Outcome::fail("unreadable", "C06: formula missing".to_string());
        };
        let (sig, _) = g::signature_of(&[&case.f]);
        let pool = g::value_pool(&sig, &["zz"]);
        let window: Vec<_> = pool
            .iter()
            .filter(|v| !matches!(v, crate::dom::Val::Int(n) if n.abs() > 1000))
            .take(9)
            .cloned()
            .chain(pool.iter().rev().take(3).cloned())
            .collect();
        let fcs: Vec<VarId> = c.fcs.iter().cloned().collect();
        let (_, interp) = g::build_interp(&case.raw, &c.preds, &fcs, &pool);
        let ev = Ev::classical(&interp, &window, false).with_budget(600_000);
        let a = ev.sat(&src, &mut Env::new(), World::T);
        let b = ev.sat(back, &mut Env::new(), World::T);
        let mut ls = vec![];
        labels(&case.f, "top", &mut ls);
        ls.sort();
        ls.dedup();
        let nontrivial = has_cmp_below(&src, false);
        match (a, b) {
            (Some(x), Some(y)) if x != y => Outcome::fail(
                "meaning-changed",
                format!(
                    "C06: the rendered formula has a different truth value ({y}) than the source ({x})\n  formula: {shown}\n  rendered: {rendered}\n  interpretation: {}",
                    interp.json()
                ),
            ),
            (Some(_), Some(_)) => Outcome::pass(nontrivial, hash64(&format!("{rendered}|{:?}", interp.preds))).labels(ls),
            _ => Outcome::skip("evaluation budget or overflow"),
        }
    }
    fn describe(&self, case: &Case) -> Value {
        json!({
            "formula": safe_print::formula(&case.f, &Style::plain()),
            "raw": raw_json(&case.raw),
        })
    }
    fn from_replay(&self, j: &Value) -> Option<Case> {
        Some(Case {
            f: j["formula"].as_str()?.parse().ok()?,
            raw: raw_from_json(&j["raw"])?,
        })
    }
}

fn has_cmp_below(f: &Fm, below: bool) -> bool {
    match f {
        Fm::Cmp(..) => below,
        Fm::Not(g) | Fm::Q(_, _, g) => has_cmp_below(g, true),
        Fm::Bin(_, a, b) => has_cmp_below(a, true) || has_cmp_below(b, true),
        _ => false,
    }
}
