//! C11 — applicability checks are exact (tightness, regularity) and enforced.
use crate::cli;
use crate::generators::asp::{self as ga, AspCfg};
use crate::runner::{Check, Outcome, Tier, hash64};
use crate::safe_print::{self, Style};
use anthem::analyzing::regularity::Regularity as _;
use anthem::analyzing::tightness::Tightness as _;
use anthem::syntax_tree::asp::mini_gringo as asp;
use proptest::prelude::*;
use serde_json::{Value, json};
use std::collections::{BTreeMap, BTreeSet};

// ------------------------------------------------------------------ independent analyses

type Node = (String, usize);

pub fn positive_dependency_graph(p: &asp::Program) -> BTreeMap<Node, BTreeSet<Node>> {
    let mut g: BTreeMap<Node, BTreeSet<Node>> = BTreeMap::new();
    for r in &p.rules {
        let head = match &r.head {
            asp::Head::Basic(a) | asp::Head::Choice(a) => Some((a.predicate_symbol.clone(), a.terms.len())),
            asp::Head::Falsity => None,
        };
        for f in &r.body.formulas {
            if let asp::AtomicFormula::Literal(l) = f {
                let q = (l.atom.predicate_symbol.clone(), l.atom.terms.len());
                g.entry(q.clone()).or_default();
                if let (Some(h), asp::Sign::NoSign) = (&head, &l.sign) {
                    g.entry(h.clone()).or_default().insert(q);
                }
            }
        }
        if let Some(h) = head {
            g.entry(h).or_default();
        }
    }
    g
}

pub fn has_cycle(g: &BTreeMap<Node, BTreeSet<Node>>) -> bool {
    // iterative removal of nodes without outgoing edges into the remaining graph
    let mut remaining: BTreeSet<Node> = g.keys().cloned().collect();
    loop {
        let removable: Vec<Node> = remaining
            .iter()
            .filter(|n| g[*n].iter().all(|m| !remaining.contains(m)))
            .cloned()
            .collect();
        if removable.is_empty() {
            return !remaining.is_empty();
        }
        for n in removable {
            remaining.remove(&n);
        }
    }
}

pub fn ref_is_tight(p: &asp::Program) -> bool {
    !has_cycle(&positive_dependency_graph(p))
}

fn exotic(t: &asp::Term) -> bool {
    match t {
        asp::Term::PrecomputedTerm(asp::PrecomputedTerm::Numeral(_)) | asp::Term::Variable(_) => false,
        asp::Term::PrecomputedTerm(_) => true,
        asp::Term::UnaryOperation { arg, .. } => exotic(arg),
        asp::Term::BinaryOperation { lhs, rhs, .. } => exotic(lhs) || exotic(rhs),
    }
}

fn first_kind(t: &asp::Term) -> bool {
    match t {
        asp::Term::Variable(_) | asp::Term::PrecomputedTerm(_) => true,
        // unary minus is read as subtraction from 0
        asp::Term::UnaryOperation { arg, .. } => first_kind(arg) && !exotic(arg),
        asp::Term::BinaryOperation { op, lhs, rhs } => {
            matches!(
                op,
                asp::BinaryOperator::Add | asp::BinaryOperator::Subtract | asp::BinaryOperator::Multiply
            ) && first_kind(lhs)
                && !exotic(lhs)
                && first_kind(rhs)
                && !exotic(rhs)
        }
    }
}

fn second_kind(t: &asp::Term) -> bool {
    match t {
        asp::Term::BinaryOperation {
            op: asp::BinaryOperator::Interval,
            lhs,
            rhs,
        } => first_kind(lhs) && !exotic(lhs) && first_kind(rhs) && !exotic(rhs),
        _ => false,
    }
}

pub fn ref_rule_is_regular(r: &asp::Rule) -> bool {
    let head_ok = match &r.head {
        asp::Head::Falsity => true,
        asp::Head::Basic(a) | asp::Head::Choice(a) => a.terms.iter().all(|t| first_kind(t) || second_kind(t)),
    };
    head_ok
        && r.body.formulas.iter().all(|f| match f {
            asp::AtomicFormula::Literal(l) => l.atom.terms.iter().all(first_kind),
            asp::AtomicFormula::Comparison(c) => {
                (first_kind(&c.lhs) && first_kind(&c.rhs))
                    || (c.relation == asp::Relation::Equal && first_kind(&c.lhs) && second_kind(&c.rhs))
            }
        })
}

pub fn ref_is_regular(p: &asp::Program) -> bool {
    p.rules.iter().all(ref_rule_is_regular)
}

// ------------------------------------------------------------------ analysis campaign

#[derive(Clone, Debug)]
pub struct Case {
    pub program: asp::Program,
    pub via_cli: bool,
}

pub struct Analyses;

fn graph_cfg() -> AspCfg {
    AspCfg {
        // equal names at different arities; few predicates so that cycles are frequent
        preds: vec![("p".into(), 0), ("p".into(), 1), ("q".into(), 0), ("q".into(), 1), ("r".into(), 1), ("r".into(), 2)],
        vars: vec!["X".into(), "Y".into()],
        syms: vec!["a".into()],
        num_lo: 0,
        num_hi: 2,
        term_depth: 2,
        op_weights: [4, 3, 3, 1, 1, 3],
        max_body: 3,
        max_rules: 5,
        exotic_leaf_weight: 2,
    }
}

impl Check for Analyses {
    type Case = Case;
    fn name(&self) -> &'static str {
        "analyses"
    }
    fn cases(&self, tier: Tier) -> usize {
        tier.pick(60_000, 2_000_000)
    }
    fn strategy(&self, _tier: Tier) -> BoxedStrategy<Case> {
        let c = graph_cfg();
        (ga::program(&c), 0u16..400)
            .prop_map(|(program, k)| Case { program, via_cli: k == 0 })
            .boxed()
    }
    fn rule(&self) -> String {
        "random program over {p/0,p/1,q/0,q/1,r/1,r/2} (equal names at different arities, all signs, choice heads, constraints, all term operators); oracle: is_tight() == acyclicity of the positive dependency graph computed independently over (name, arity) nodes, is_regular() == an independent implementation of the documented definition (unary minus read as 0 - t); 1 case in 400 also goes through `anthem analyze`; non-trivial = the dependency graph has at least one edge; distinct by program text; labels = tight/non-tight, regular/irregular".into()
    }
    fn run(&self, case: &Case) -> Outcome {
        let text = safe_print::asp_program(&case.program, &Style::plain());
        let g = positive_dependency_graph(&case.program);
        let edges: usize = g.values().map(|s| s.len()).sum();
        let (t_ref, t_got) = (ref_is_tight(&case.program), case.program.is_tight());
        if t_ref != t_got {
            return Outcome::fail(
                "tightness",
                format!("C11: is_tight() = {t_got} but the positive dependency graph is {}\n  program: {text}\n  graph: {g:?}", if t_ref { "acyclic" } else { "cyclic" }),
            );
        }
        let (r_ref, r_got) = (ref_is_regular(&case.program), case.program.is_regular());
        if r_ref != r_got {
            return Outcome::fail(
                "regularity",
                format!("C11: is_regular() = {r_got} but by the documented definition the program is {}\n  program: {text}", if r_ref { "regular" } else { "not regular" }),
            );
        }
        if case.via_cli {
            if let Some(bin) = cli::anthem_bin() {
                for (prop, expected) in [("tightness", t_ref), ("regularity", r_ref)] {
                    let r = cli::run(&bin, &["analyze", "--property", prop], Some(&text));
                    if r.code != Some(0) || r.stdout.trim() != expected.to_string() {
                        return Outcome::fail(
                            format!("cli-{prop}"),
                            format!("C11: `anthem analyze --property {prop}` printed {:?} (exit {:?}), expected {expected}\n  program: {text}", r.stdout, r.code),
                        );
                    }
                }
            }
        }
        Outcome::pass(edges > 0, hash64(&text))
            .label(format!("tight={t_ref}"))
            .label(format!("regular={r_ref}"))
            .label(format!("cli={}", case.via_cli))
    }
    fn describe(&self, case: &Case) -> Value {
        json!({"program": safe_print::asp_program(&case.program, &Style::plain()), "via_cli": case.via_cli})
    }
    fn from_replay(&self, j: &Value) -> Option<Case> {
        Some(Case {
            program: j["program"].as_str()?.parse().ok()?,
            via_cli: j["via_cli"].as_bool().unwrap_or(false),
        })
    }
}
