//! C11 — applicability checks are exact (tightness, regularity) and enforced.
use crate::cli;
use crate::generators::asp::{self as ga, AspCfg};
use crate::runner::{Check, Outcome, Tier, hash64};
use crate::safe_print::{self, Style};
use anthem::analyzing::regularity::Regularity as _;
use anthem::analyzing::tightness::Tightness as _;
use anthem::syntax_tree::asp::mini_gringo as asp;
use proptest::prelude::*;
use serde_json::{Value, json};
use std::collections::{BTreeMap, BTreeSet};

// ------------------------------------------------------------------ independent analyses

type Node = (String, usize);

pub fn positive_dependency_graph(p: &asp::Program) -> BTreeMap<Node, BTreeSet<Node>> {
    let mut g: BTreeMap<Node, BTreeSet<Node>> = BTreeMap::new();
    for r in &p.rules {
        let head = match &r.head {
            asp::Head::Basic(a) | asp::Head::Choice(a) => Some((a.predicate_symbol.clone(), a.terms.len())),
            asp::Head::Falsity => None,
        };
        for f in &r.body.formulas {
            if let asp::AtomicFormula::Literal(l) = f {
                let q = (l.atom.predicate_symbol.clone(), l.atom.terms.len());
                g.entry(q.clone()).or_default();
                if let (Some(h), asp::Sign::NoSign) = (&head, &l.sign) {
                    g.entry(h.clone()).or_default().insert(q);
                }
            }
        }
        if let Some(h) = head {
            g.entry(h).or_default();
        }
    }
    g
}

pub fn has_cycle(g: &BTreeMap<Node, BTreeSet<Node>>) -> bool {
    // iterative removal of nodes without outgoing edges into the remaining graph
    let mut remaining: BTreeSet<Node> = g.keys().cloned().collect();
    loop {
        let removable: Vec<Node> = remaining
            .iter()
            .filter(|n| g[*n].iter().all(|m| !remaining.contains(m)))
            .cloned()
            .collect();
        if removable.is_empty() {
            return !remaining.is_empty();
        }
        for n in removable {
            remaining.remove(&n);
        }
    }
}

pub fn ref_is_tight(p: &asp::Program) -> bool {
    !has_cycle(&positive_dependency_graph(p))
}

fn exotic(t: &asp::Term) -> bool {
    match t {
        asp::Term::PrecomputedTerm(asp::PrecomputedTerm::Numeral(_)) | asp::Term::Variable(_) => false,
        asp::Term::PrecomputedTerm(_) => true,
        asp::Term::UnaryOperation { arg, .. } => exotic(arg),
        asp::Term::BinaryOperation { lhs, rhs, .. } => exotic(lhs) || exotic(rhs),
    }
}

fn first_kind(t: &asp::Term) -> bool {
    match t {
        asp::Term::Variable(_) | asp::Term::PrecomputedTerm(_) => true,
        // unary minus is read as subtraction from 0
        asp::Term::UnaryOperation { arg, .. } => first_kind(arg) && !exotic(arg),
        asp::Term::BinaryOperation { op, lhs, rhs } => {
            matches!(
                op,
                asp::BinaryOperator::Add | asp::BinaryOperator::Subtract | asp::BinaryOperator::Multiply
            ) && first_kind(lhs)
                && !exotic(lhs)
                && first_kind(rhs)
                && !exotic(rhs)
        }
    }
}

fn second_kind(t: &asp::Term) -> bool {
    match t {
        asp::Term::BinaryOperation {
            op: asp::BinaryOperator::Interval,
            lhs,
            rhs,
        } => first_kind(lhs) && !exotic(lhs) && first_kind(rhs) && !exotic(rhs),
        _ => false,
    }
}

pub fn ref_rule_is_regular(r: &asp::Rule) -> bool {
    let head_ok = match &r.head {
        asp::Head::Falsity => true,
        asp::Head::Basic(a) | asp::Head::Choice(a) => a.terms.iter().all(|t| first_kind(t) || second_kind(t)),
    };
    head_ok
        && r.body.formulas.iter().all(|f| match f {
            asp::AtomicFormula::Literal(l) => l.atom.terms.iter().all(first_kind),
            asp::AtomicFormula::Comparison(c) => {
                (first_kind(&c.lhs) && first_kind(&c.rhs))
                    || (c.relation == asp::Relation::Equal && first_kind(&c.lhs) && second_kind(&c.rhs))
            }
        })
}

pub fn ref_is_regular(p: &asp::Program) -> bool {
    p.rules.iter().all(ref_rule_is_regular)
}

// ------------------------------------------------------------------ analysis campaign

#[derive(Clone, Debug)]
pub struct Case {
    pub program: asp::Program,
    pub via_cli: bool,
}

pub struct Analyses;

fn graph_cfg() -> AspCfg {
    AspCfg {
        // equal names at different arities; few predicates so that cycles are frequent
        preds: vec![("p".into(), 0), ("p".into(), 1), ("q".into(), 0), ("q".into(), 1), ("r".into(), 1), ("r".into(), 2), ("not_r".into(), 1)],
        vars: vec!["X".into(), "Y".into()],
        syms: vec!["a".into()],
        num_lo: 0,
        num_hi: 2,
        term_depth: 2,
        op_weights: [4, 3, 3, 1, 1, 3],
        max_body: 3,
        max_rules: 5,
        exotic_leaf_weight: 2,
    }
}

impl Check for Analyses {
    type Case = Case;
    fn name(&self) -> &'static str {
        "analyses"
    }
    fn cases(&self, tier: Tier) -> usize {
        tier.pick(600_000, 10_000_000)
    }
    fn strategy(&self, _tier: Tier) -> BoxedStrategy<Case> {
        let c = graph_cfg();
        (ga::program(&c), 0u16..400)
            .prop_map(|(program, k)| Case { program, via_cli: k == 0 })
            .boxed()
    }
    fn rule(&self) -> String {
        "random program over {p/0,p/1,q/0,q/1,r/1,r/2} (equal names at different arities, all signs, choice heads, constraints, all term operators); oracle: is_tight() == acyclicity of the positive dependency graph computed independently over (name, arity) nodes, is_regular() == an independent implementation of the documented definition (unary minus read as 0 - t); 1 case in 400 also goes through `anthem analyze`; non-trivial = the dependency graph has at least one edge; distinct by program text; labels = tight/non-tight, regular/irregular".into()
    }
    fn exhaustive(&self, tier: Tier) -> Vec<Case> {
        // all programs of one rule, and of two rules (second rule with at most one body literal in
        // the quick tier), over the atoms p, q, p(X), three signs, basic/choice/constraint heads
        let x = asp::Term::Variable(asp::Variable("X".into()));
        let atoms = vec![
            asp::Atom { predicate_symbol: "p".into(), terms: vec![] },
            asp::Atom { predicate_symbol: "q".into(), terms: vec![] },
            asp::Atom { predicate_symbol: "p".into(), terms: vec![x] },
        ];
        let signs = [asp::Sign::NoSign, asp::Sign::Negation, asp::Sign::DoubleNegation];
        let mut literals = vec![];
        for a in &atoms {
            for s in &signs {
                literals.push(asp::AtomicFormula::Literal(asp::Literal { sign: s.clone(), atom: a.clone() }));
            }
        }
        let mut bodies: Vec<Vec<asp::AtomicFormula>> = vec![vec![]];
        for l in &literals {
            bodies.push(vec![l.clone()]);
        }
        let short = bodies.len();
        for l in &literals {
            for m in &literals {
                bodies.push(vec![l.clone(), m.clone()]);
            }
        }
        let mut heads = vec![asp::Head::Falsity];
        for a in &atoms {
            heads.push(asp::Head::Basic(a.clone()));
            heads.push(asp::Head::Choice(a.clone()));
        }
        let rule = |h: &asp::Head, b: &Vec<asp::AtomicFormula>| asp::Rule {
            head: h.clone(),
            body: asp::Body { formulas: b.clone() },
        };
        let mut rules = vec![];
        for h in &heads {
            for b in &bodies {
                rules.push(rule(h, b));
            }
        }
        let mut second = vec![];
        for h in &heads {
            for b in bodies.iter().take(if tier == Tier::Thorough { bodies.len() } else { short }) {
                second.push(rule(h, b));
            }
        }
        let mut out = vec![];
        for r in &rules {
            out.push(Case { program: asp::Program { rules: vec![r.clone()] }, via_cli: false });
            for r2 in &second {
                out.push(Case { program: asp::Program { rules: vec![r.clone(), r2.clone()] }, via_cli: false });
            }
        }
        out
    }
    fn run(&self, case: &Case) -> Outcome {
        let text = safe_print::asp_program(&case.program, &Style::plain());
        let g = positive_dependency_graph(&case.program);
        let edges: usize = g.values().map(|s| s.len()).sum();
        let (t_ref, t_got) = (ref_is_tight(&case.program), case.program.is_tight());
        if t_ref != t_got {
            return Outcome::fail(
                "tightness",
                format!("C11: is_tight() = {t_got} but the positive dependency graph is {}\n  program: {text}\n  graph: {g:?}", if t_ref { "acyclic" } else { "cyclic" }),
            );
        }
        let (r_ref, r_got) = (ref_is_regular(&case.program), case.program.is_regular());
        if r_ref != r_got {
            return Outcome::fail(
                "regularity",
                format!("C11: is_regular() = {r_got} but by the documented definition the program is {}\n  program: {text}", if r_ref { "regular" } else { "not regular" }),
            );
        }
        if case.via_cli {
            if let Some(bin) = cli::anthem_bin() {
                // the program as a user would write it: a header comment, one rule per line with a
                // trailing comment, blank lines; read from standard input and from a file
                let mut commented = String::from("% a program with comments\n\n");
                for line in text.lines() {
                    commented.push_str(line);
                    commented.push_str("  % rule\n\n");
                }
                let dir = cli::scratch_dir("c11");
                let file = dir.join("program.lp");
                std::fs::write(&file, &commented).unwrap();
                let path = file.to_string_lossy().to_string();
                for (prop, expected) in [("tightness", t_ref), ("regularity", r_ref)] {
                    for (channel, r) in [
                        ("stdin", cli::run(&bin, &["analyze", "--property", prop], Some(&commented))),
                        ("file", cli::run(&bin, &["analyze", "--property", prop, &path], None)),
                    ] {
                        if r.code != Some(0) || r.stdout.trim() != expected.to_string() {
                            let _ = std::fs::remove_dir_all(&dir);
                            return Outcome::fail(
                                format!("cli-{prop}"),
                                format!("C11: `anthem analyze --property {prop}` ({channel}) printed {:?} (exit {:?}), expected {expected}\n  program text:\n{commented}", r.stdout, r.code),
                            );
                        }
                    }
                }
                let _ = std::fs::remove_dir_all(&dir);
            }
        }
        Outcome::pass(edges > 0, hash64(&text))
            .label(format!("tight={t_ref}"))
            .label(format!("regular={r_ref}"))
            .label(format!("cli={}", case.via_cli))
    }
    fn describe(&self, case: &Case) -> Value {
        json!({"program": safe_print::asp_program(&case.program, &Style::plain()), "via_cli": case.via_cli})
    }
    fn from_replay(&self, j: &Value) -> Option<Case> {
        Some(Case {
            program: j["program"].as_str()?.parse().ok()?,
            via_cli: j["via_cli"].as_bool().unwrap_or(false),
        })
    }
}

// ------------------------------------------------------------------ enforcement campaign

use crate::generators::task::{self as gt, Chooser};
use crate::ops;
use anthem::syntax_tree::fol::sigma_0 as fol;

#[derive(Clone, Debug)]
pub struct EnfCase {
    pub choices: Vec<u16>,
    pub breakage: u8,
    pub on_left: bool,
    pub bypass: bool,
}

pub struct Enforcement;

const BREAKAGES: [&str; 11] = [
    "none",
    "non-tight",
    "private-recursion-through-negation",
    "private-choice-head",
    "input-in-head",
    "input-output-overlap",
    "ug-assumption-with-non-input",
    "spec-assumption-with-output",
    "placeholder-two-sorts",
    "private-recursion-mixed-signs",
    "private-recursion-positive",
];

fn unary(p: &str, t: asp::Term) -> asp::Atom {
    asp::Atom {
        predicate_symbol: p.into(),
        terms: vec![t],
    }
}

fn positive(a: asp::Atom) -> asp::AtomicFormula {
    asp::AtomicFormula::Literal(asp::Literal {
        sign: asp::Sign::NoSign,
        atom: a,
    })
}

impl Check for Enforcement {
    type Case = EnfCase;
    fn name(&self) -> &'static str {
        "enforcement"
    }
    fn cases(&self, tier: Tier) -> usize {
        tier.pick(40_000, 800_000)
    }
    fn strategy(&self, _tier: Tier) -> BoxedStrategy<EnfCase> {
        (gt::choices(160), 0u8..11, any::<bool>(), any::<bool>())
            .prop_map(|(choices, breakage, on_left, bypass)| EnfCase {
                choices,
                breakage,
                on_left,
                bypass,
            })
            .boxed()
    }
    fn rule(&self) -> String {
        "external-equivalence task that is valid by construction, with exactly one precondition broken on purpose (or none: control), on the left or right program, with and without --bypass-tightness; oracle: a broken task (non-tight; private recursion through negation, through a mixed-sign cycle or through a positive cycle; private choice head; input in a head; input/output overlap; bad assumptions; placeholder at two sorts) yields an error and no problems, except a merely non-tight program under --bypass-tightness, which yields problems; the control yields problems; non-trivial = a precondition was broken; distinct by task + breakage; labels = breakage kind and the error variant reported; one case in 150 also goes through the binary with --no-proof-search, with and without --save-problems: refused (non-zero exit, message, nothing written) exactly when the library refuses".into()
    }
    fn run(&self, case: &EnfCase) -> Outcome {
        let mut c = Chooser::new(case.choices.clone());
        let mut task = gt::external_task(&mut c);
        let flags = gt::flags(&mut c);
        let var = |v: &str| asp::Term::Variable(asp::Variable(v.into()));
        let input = task.names.inputs[0].0.clone();
        let output = task.names.outputs[0].0.clone();
        let mut kind = BREAKAGES[case.breakage as usize % BREAKAGES.len()];
        // programs the breakage can be applied to
        let left_is_program = task.left_program.is_some();
        let on_left = case.on_left && left_is_program;
        let private_of_side = if on_left { task.names.left_private[0].0.clone() } else { task.names.right_private[0].0.clone() };
        {
            let program: &mut asp::Program = if on_left { task.left_program.as_mut().unwrap() } else { &mut task.right };
            match kind {
                "non-tight" => program.rules.push(asp::Rule {
                    head: asp::Head::Basic(unary(&output, var("X"))),
                    body: asp::Body {
                        formulas: vec![positive(unary(&output, var("X"))), positive(unary(&input, var("X")))],
                    },
                }),
                "private-recursion-through-negation" => program.rules.push(asp::Rule {
                    head: asp::Head::Basic(unary(&private_of_side, var("X"))),
                    body: asp::Body {
                        formulas: vec![
                            positive(unary(&input, var("X"))),
                            asp::AtomicFormula::Literal(asp::Literal {
                                sign: asp::Sign::Negation,
                                atom: unary(&private_of_side, var("X")),
                            }),
                        ],
                    },
                }),
                "private-recursion-mixed-signs" => {
                    // a cycle among two private predicates with one positive and one negated edge
                    // (the program stays tight): mx(X) :- in(X), priv(X).  priv(X) :- in(X), not mx(X).
                    program.rules.push(asp::Rule {
                        head: asp::Head::Basic(unary("mx", var("X"))),
                        body: asp::Body {
                            formulas: vec![positive(unary(&input, var("X"))), positive(unary(&private_of_side, var("X")))],
                        },
                    });
                    program.rules.push(asp::Rule {
                        head: asp::Head::Basic(unary(&private_of_side, var("X"))),
                        body: asp::Body {
                            formulas: vec![
                                positive(unary(&input, var("X"))),
                                asp::AtomicFormula::Literal(asp::Literal {
                                    sign: if case.bypass { asp::Sign::DoubleNegation } else { asp::Sign::Negation },
                                    atom: unary("mx", var("X")),
                                }),
                            ],
                        },
                    });
                }
                "private-recursion-positive" => program.rules.push(asp::Rule {
                    // also non-tight: refused for one reason or the other, with and without the bypass
                    head: asp::Head::Basic(unary("mx", var("X"))),
                    body: asp::Body {
                        formulas: vec![positive(unary("mx", var("X"))), positive(unary(&input, var("X")))],
                    },
                }),
                "private-choice-head" => program.rules.push(asp::Rule {
                    head: asp::Head::Choice(unary(&private_of_side, var("X"))),
                    body: asp::Body {
                        formulas: vec![positive(unary(&input, var("X")))],
                    },
                }),
                "input-in-head" => program.rules.push(asp::Rule {
                    head: asp::Head::Basic(unary(&input, asp::Term::PrecomputedTerm(asp::PrecomputedTerm::Numeral(1)))),
                    body: asp::Body { formulas: vec![] },
                }),
                _ => {}
            }
        }
        let atom_f = |p: &str| {
            fol::Formula::AtomicFormula(fol::AtomicFormula::Atom(fol::Atom {
                predicate_symbol: p.into(),
                terms: vec![fol::GeneralTerm::Variable("X".into())],
            }))
        };
        let closed = |f: fol::Formula| fol::Formula::QuantifiedFormula {
            quantification: fol::Quantification {
                quantifier: fol::Quantifier::Forall,
                variables: vec![fol::Variable { name: "X".into(), sort: fol::Sort::General }],
            },
            formula: Box::new(f),
        };
        match kind {
            "input-output-overlap" => task.user_guide.entries.push(fol::UserGuideEntry::OutputPredicate(fol::Predicate {
                symbol: input.clone(),
                arity: 1,
            })),
            "ug-assumption-with-non-input" => {
                let p = if c.flag(1, 2) { output.clone() } else { task.names.right_private[0].0.clone() };
                // other annotated formulas (roles a user guide ignores with a warning, or a harmless
                // assumption) may stand before the offending one
                for _ in 0..c.next(3) {
                    let role = match c.next(4) {
                        0 => fol::Role::Lemma,
                        1 => fol::Role::Spec,
                        2 => fol::Role::InductiveLemma,
                        _ => fol::Role::Assumption,
                    };
                    task.user_guide.entries.push(fol::UserGuideEntry::AnnotatedFormula(gt::annotated(
                        role,
                        fol::Direction::Universal,
                        "",
                        closed(fol::Formula::BinaryFormula {
                            connective: fol::BinaryConnective::Implication,
                            lhs: Box::new(atom_f(&input)),
                            rhs: Box::new(atom_f(&input)),
                        }),
                    )));
                }
                task.user_guide.entries.push(fol::UserGuideEntry::AnnotatedFormula(gt::annotated(
                    fol::Role::Assumption,
                    fol::Direction::Universal,
                    "bad",
                    closed(fol::Formula::BinaryFormula {
                        connective: fol::BinaryConnective::Implication,
                        lhs: Box::new(atom_f(&input)),
                        rhs: Box::new(atom_f(&p)),
                    }),
                )));
            }
            "spec-assumption-with-output" => match task.left_spec.as_mut() {
                Some(spec) => spec.formulas.push(gt::annotated(
                    fol::Role::Assumption,
                    fol::Direction::Universal,
                    "bad",
                    closed(fol::Formula::BinaryFormula {
                        connective: fol::BinaryConnective::Implication,
                        lhs: Box::new(atom_f(&input)),
                        rhs: Box::new(atom_f(&output)),
                    }),
                )),
                None => kind = "none",
            },
            "placeholder-two-sorts" => {
                task.user_guide.entries.push(fol::UserGuideEntry::PlaceholderDeclaration(fol::PlaceholderDeclaration {
                    name: "dup".into(),
                    sort: fol::Sort::Integer,
                }));
                task.user_guide.entries.push(fol::UserGuideEntry::PlaceholderDeclaration(fol::PlaceholderDeclaration {
                    name: "dup".into(),
                    sort: fol::Sort::General,
                }));
            }
            _ => {}
        }
        let result = ops::external_problems(&task, &ops::empty_outline(), &flags, case.bypass);
        let description = format!(
            "{}\n  breakage: {kind} (on {}), bypass_tightness={}, {}",
            crate::checks::problems::describe_external(&task),
            if on_left { "left" } else { "right" },
            case.bypass,
            flags.describe()
        );
        let key = hash64(&description);
        let expect_ok = kind == "none" || (kind == "non-tight" && case.bypass);
        // one case in 150 also goes through the command line, with and without --save-problems: a task is
        // refused (non-zero exit, a message, nothing written) exactly when the library refuses it - also when
        // no problem file is asked for
        if key % 150 == 0 {
            if let Some(bin) = cli::anthem_bin() {
                let dir = cli::scratch_dir("c11e");
                let mut files: Vec<String> = vec![];
                let mut put = |name: &str, text: String| {
                    std::fs::write(dir.join(name), text).unwrap();
                    files.push(dir.join(name).to_string_lossy().to_string());
                };
                match (&task.left_program, &task.left_spec) {
                    (Some(p), _) => put("a.lp", safe_print::asp_program(p, &Style::plain())),
                    (_, Some(sp)) => put("s.spec", safe_print::specification(sp, &Style::plain())),
                    _ => {}
                }
                put("b.lp", safe_print::asp_program(&task.right, &Style::plain()));
                put("u.ug", safe_print::user_guide(&task.user_guide, &Style::plain()));
                let out = dir.join("out");
                let mut verdict = None;
                for save in [true, false] {
                    let mut args: Vec<String> = vec!["verify".into(), "--equivalence".into(), "external".into(), "--no-proof-search".into()];
                    if save {
                        std::fs::create_dir_all(&out).unwrap();
                        args.push("--save-problems".into());
                        args.push(out.to_string_lossy().to_string());
                    }
                    if case.bypass {
                        args.push("--bypass-tightness".into());
                    }
                    args.extend(files.iter().cloned());
                    let argv: Vec<&str> = args.iter().map(|s| s.as_str()).collect();
                    let r = cli::run(&bin, &argv, None);
                    let written = if save { cli::snapshot_dir(&out).len() } else { 0 };
                    let accepted = r.code == Some(0);
                    if accepted != result.is_ok() || (!accepted && (written > 0 || r.stderr.trim().is_empty())) {
                        verdict = Some(Outcome::fail(
                            format!("cli-differs-from-library:{}", if save { "save-problems" } else { "dry-run" }),
                            format!(
                                "C11: `anthem {}` ended with exit {:?} ({written} files written), the library {} the task\n  stderr: {}\n{description}",
                                argv[..argv.len() - files.len()].join(" "),
                                r.code,
                                if result.is_ok() { "accepts" } else { "refuses" },
                                r.stderr.chars().take(300).collect::<String>()
                            ),
                        ));
                        break;
                    }
                }
                let _ = std::fs::remove_dir_all(&dir);
                if let Some(o) = verdict {
                    return o;
                }
            }
        }
        match (&result, expect_ok) {
            (Ok((problems, _)), true) => {
                // a direction without conclusions legitimately has no problems; require some for Universal
                if problems.is_empty() && flags.direction == fol::Direction::Universal {
                    return Outcome::fail("accepted-without-problems", format!("C11: an accepted task produced no problems\n{description}"));
                }
                Outcome::pass(kind != "none", key).label(format!("breakage={kind}")).label("accepted").readable(description.clone())
            }
            (Err((variant, _)), false) => Outcome::pass(true, key)
                .readable(description.clone())
                .label(format!("breakage={kind}"))
                .label(format!("refused:{variant}")),
            (Ok((problems, _)), false) => Outcome::fail(
                format!("accepted-broken:{kind}"),
                format!("C11: a task with the broken precondition '{kind}' was accepted and {} problem(s) emitted\n{description}", problems.len()),
            ),
            (Err((variant, msg)), true) => Outcome::fail(
                format!("refused-valid:{variant}"),
                format!("C11: a task that should be accepted ({kind}) was refused with {variant}: {msg}\n{description}"),
            ),
        }
    }
    fn describe(&self, case: &EnfCase) -> Value {
        json!({"choices": case.choices, "breakage": case.breakage, "on_left": case.on_left, "bypass": case.bypass})
    }
    fn from_replay(&self, j: &Value) -> Option<EnfCase> {
        Some(EnfCase {
            choices: j["choices"].as_array()?.iter().map(|x| x.as_u64().unwrap() as u16).collect(),
            breakage: j["breakage"].as_u64()? as u8,
            on_left: j["on_left"].as_bool()?,
            bypass: j["bypass"].as_bool()?,
        })
    }
}
