//! C01 — the tau* theory has exactly the program's here-and-there (and stable) models.
use crate::asp_ref;
use crate::checks::c17::{raw_from_json, raw_json};
use crate::dom::{Interp, Val};
use crate::eval::{Env, Ev, World};
use crate::generators::asp::{self as ga, AspCfg};
use crate::generators::fol::{self as g, RawInterp};
use crate::ir::{self, VarId};
use crate::runner::{Check, Outcome, Tier, hash64};
use crate::safe_print::{self, Style};
use anthem::syntax_tree::asp::mini_gringo as asp;
use anthem::translating::formula_representation::tau_star::TauStar as _;
use proptest::prelude::*;
use serde_json::{Value, json};

#[derive(Clone, Debug)]
pub struct Case {
    pub program: asp::Program,
    pub raw: RawInterp,
}

pub struct C01;

pub fn cfg() -> AspCfg {
    AspCfg {
        preds: vec![("p".into(), 1), ("q".into(), 1), ("r".into(), 2), ("s".into(), 0), ("p".into(), 2), ("t".into(), 3)],
        // names that collide with the translator's fresh variables
        vars: vec!["X".into(), "Y".into(), "I".into(), "J".into(), "K".into(), "Q".into(), "R".into(), "Z".into(), "Z1".into(), "Z2".into(), "V1".into(), "V".into(), "V2".into(), "V8".into(), "V98".into()],
        syms: vec!["a".into(), "b".into()],
        num_lo: -3,
        num_hi: 4,
        term_depth: 3,
        op_weights: [4, 4, 3, 4, 4, 4],
        max_body: 3,
        max_rules: 3,
        exotic_leaf_weight: 2,
    }
}

pub fn term_classes(t: &asp::Term, out: &mut Vec<String>) {
    match t {
        asp::Term::BinaryOperation { op, lhs, rhs } => {
            let name = match op {
                asp::BinaryOperator::Add => "add",
                asp::BinaryOperator::Subtract => "sub",
                asp::BinaryOperator::Multiply => "mul",
                asp::BinaryOperator::Divide => "div",
                asp::BinaryOperator::Modulo => "mod",
                asp::BinaryOperator::Interval => "interval",
            };
            out.push(format!("op:{name}"));
            let exotic = |t: &asp::Term| {
                matches!(
                    t,
                    asp::Term::PrecomputedTerm(
                        asp::PrecomputedTerm::Symbol(_) | asp::PrecomputedTerm::Infimum | asp::PrecomputedTerm::Supremum
                    )
                )
            };
            if exotic(lhs) || exotic(rhs) {
                out.push("non-integer-under-arithmetic".into());
            }
            let multi = |t: &asp::Term| matches!(t, asp::Term::BinaryOperation { op: asp::BinaryOperator::Interval, .. });
            if multi(lhs) || multi(rhs) {
                out.push("nested-interval".into());
            }
            if matches!(op, asp::BinaryOperator::Divide | asp::BinaryOperator::Modulo) {
                if let asp::Term::PrecomputedTerm(asp::PrecomputedTerm::Numeral(n)) = **rhs {
                    out.push(
                        if n == 0 { "divisor:zero" } else if n < 0 { "divisor:negative" } else { "divisor:positive" }.to_string(),
                    );
                }
                if let asp::Term::PrecomputedTerm(asp::PrecomputedTerm::Numeral(n)) = **lhs {
                    if n < 0 {
                        out.push("dividend:negative".into());
                    }
                }
            }
            term_classes(lhs, out);
            term_classes(rhs, out);
        }
        asp::Term::UnaryOperation { arg, .. } => {
            out.push("op:neg".into());
            term_classes(arg, out);
        }
        _ => {}
    }
}

pub fn rule_classes(r: &asp::Rule) -> Vec<String> {
    let mut out = vec![];
    match &r.head {
        asp::Head::Basic(a) => {
            out.push("head:basic".to_string());
            a.terms.iter().for_each(|t| term_classes(t, &mut out));
        }
        asp::Head::Choice(a) => {
            out.push("head:choice".to_string());
            a.terms.iter().for_each(|t| term_classes(t, &mut out));
        }
        asp::Head::Falsity => out.push("head:constraint".to_string()),
    }
    for f in &r.body.formulas {
        match f {
            asp::AtomicFormula::Literal(l) => {
                out.push(format!("sign:{:?}", l.sign));
                l.atom.terms.iter().for_each(|t| term_classes(t, &mut out));
            }
            asp::AtomicFormula::Comparison(c) => {
                out.push(format!("cmp:{:?}", c.relation));
                term_classes(&c.lhs, &mut out);
                term_classes(&c.rhs, &mut out);
            }
        }
    }
    out.sort();
    out.dedup();
    out
}

/// active values of a program (numerals and neighbours, symbols, #inf, #sup) and interpretations over them
pub fn program_pool(p: &asp::Program) -> Vec<Val> {
    let theory = p.clone().tau_star();
    let lowered: Vec<ir::Fm> = theory.formulas.iter().map(ir::lower).collect();
    let refs: Vec<&ir::Fm> = lowered.iter().collect();
    let sig = ir::Signature::of(&refs);
    g::value_pool(&sig, &["zz"])
}

pub fn program_preds(p: &asp::Program) -> Vec<(String, usize)> {
    let mut v: Vec<(String, usize)> = p.predicates().into_iter().map(|x| (x.symbol, x.arity)).collect();
    v.sort();
    v
}

impl Check for C01 {
    type Case = Case;
    fn name(&self) -> &'static str {
        "tau-star-ht"
    }
    fn cases(&self, tier: Tier) -> usize {
        tier.pick(30_000, 800_000)
    }
    fn strategy(&self, _tier: Tier) -> BoxedStrategy<Case> {
        let c = cfg();
        (ga::shaped_program(&c, 1), g::raw_interp(5, 0, 2, 6))
            .prop_map(|(program, raw)| Case { program, raw })
            .boxed()
    }
    fn rule(&self) -> String {
        "random program of 1-3 rules (all head kinds, signs, relations, operators incl. / \\ .. with negative/zero divisors and non-integers under arithmetic, variables named I J K Q R Z Z1 V1; 80% of the rules made safe) x random (H subset-of T); oracle per rule: exact HT evaluation of formula i of tau_star(P) == reference satisfaction of every ground instance of rule i (independent mini-gringo semantics); non-trivial = both verdicts definite and some instance of the rule has its body true in T; distinct by rule text + interpretation; labels = operator / corner classes and verdicts".into()
    }
    fn run(&self, case: &Case) -> Outcome {
        if case.program.rules.is_empty() {
            return Outcome::skip("empty program");
        }
        let theory = case.program.clone().tau_star();
        if theory.formulas.len() != case.program.rules.len() {
            return Outcome::fail(
                "formula-count",
                format!("C01: tau* produced {} formulas for {} rules", theory.formulas.len(), case.program.rules.len()),
            );
        }
        let pool = program_pool(&case.program);
        let preds = program_preds(&case.program);
        let (mut h, mut t) = g::build_interp(&case.raw, &preds, &[], &pool);
        // one interpretation in three is guided: the closure of the program over the random atoms, minus an atom
        let selector: usize = case.raw.tuples.iter().flatten().flatten().map(|x| *x as usize).sum();
        if selector % 3 == 0 {
            if let Some((gh, gt)) = asp_ref::guided_pair(&case.program, &t, &preds, selector / 3) {
                h = gh;
                t = gt;
            }
        }
        let mut outcome: Option<Outcome> = None;
        let mut labels = vec![];
        let mut nontrivial = false;
        let mut keys = String::new();
        let mut definite = 0;
        for (rule, formula) in case.program.rules.iter().zip(theory.formulas.iter()) {
            let f = ir::lower(formula);
            if !f.free_vars().is_empty() {
                return Outcome::fail(
                    "open-formula",
                    format!("C01: tau* formula has free variables {:?}: {formula}", f.free_vars()),
                );
            }
            let reference = asp_ref::rule_sat(rule, &h, &t, &pool);
            let ev = Ev::ht(&h, &t, &pool, true).with_budget(400_000);
            let emitted = ev.sat(&f, &mut Env::new(), World::H);
            let text = safe_print::asp_rule(rule, &Style::plain());
            match (reference, emitted) {
                (Some(a), Some(b)) if a != b => {
                    outcome = Some(Outcome::fail(
                        "ht-mismatch",
                        format!(
                            "C01: (H,T) satisfies every instance of the rule: {a}; (H,T) satisfies the tau* formula: {b}\n  rule: {text}\n  tau*: {formula}\n  H: {}\n  T: {}",
                            h.json(),
                            t.json()
                        ),
                    ));
                    break;
                }
                (Some(a), Some(_)) => {
                    definite += 1;
                    if asp_ref::rule_fires(rule, &t, &pool) {
                        nontrivial = true;
                        labels.extend(rule_classes(rule));
                        labels.push(format!("verdict={a}"));
                    }
                    keys.push_str(&text);
                }
                _ => labels.push("inconclusive-rule".into()),
            }
        }
        if let Some(o) = outcome {
            return o;
        }
        if definite == 0 {
            return Outcome::skip("no rule with two definite verdicts").labels(labels);
        }
        labels.sort();
        labels.dedup();
        Outcome::pass(nontrivial, hash64(&format!("{keys}|{:?}|{:?}", h.preds, t.preds))).labels(labels)
    }
    fn describe(&self, case: &Case) -> Value {
        json!({
            "program": safe_print::asp_program(&case.program, &Style::plain()),
            "raw": raw_json(&case.raw),
        })
    }
    fn from_replay(&self, j: &Value) -> Option<Case> {
        Some(Case {
            program: j["program"].as_str()?.parse().ok()?,
            raw: raw_from_json(&j["raw"])?,
        })
    }
}

// ---------------------------------------------------------------------------------------
// consequence: stable models with extra facts == equilibrium models of the theory with the facts

#[derive(Clone, Debug)]
pub struct EqCase {
    pub program: asp::Program,
    pub facts: RawInterp,
}

pub struct Equilibrium;

fn eq_cfg() -> AspCfg {
    AspCfg {
        preds: vec![("p".into(), 1), ("q".into(), 1), ("s".into(), 0)],
        vars: vec!["X".into(), "I".into(), "Z".into(), "V1".into()],
        syms: vec!["a".into()],
        num_lo: 0,
        num_hi: 2,
        term_depth: 2,
        op_weights: [3, 3, 2, 3, 3, 3],
        max_body: 2,
        max_rules: 3,
        exotic_leaf_weight: 1,
    }
}

/// (H,T) |= every formula of the theory and every fact
fn theory_sat(theory: &[ir::Fm], h: &Interp, t: &Interp, pool: &[Val]) -> Option<bool> {
    let mut unknown = false;
    for f in theory {
        let ev = Ev::ht(h, t, pool, true).with_budget(200_000);
        match ev.sat(f, &mut Env::new(), World::H) {
            Some(false) => return Some(false),
            None => unknown = true,
            Some(true) => {}
        }
    }
    if unknown { None } else { Some(true) }
}

impl Check for Equilibrium {
    type Case = EqCase;
    fn name(&self) -> &'static str {
        "equilibrium"
    }
    fn cases(&self, tier: Tier) -> usize {
        tier.pick(2_500, 60_000)
    }
    fn strategy(&self, _tier: Tier) -> BoxedStrategy<EqCase> {
        let c = eq_cfg();
        (ga::shaped_program(&c, 1), g::raw_interp(3, 0, 1, 2))
            .prop_map(|(program, facts)| EqCase { program, facts })
            .boxed()
    }
    fn rule(&self) -> String {
        "random safe program x random set of extra facts; the candidate universe (over-approximating closure) must have at most 7 non-fact atoms; oracle: for every candidate J, J is a stable model of P + facts by the reference semantics (reduct least model) iff (J,J) satisfies tau*(P) + facts and no smaller H does (exact HT evaluation, all H enumerated); non-trivial = the program has at least one candidate atom beyond the facts; distinct by program + facts".into()
    }
    fn run(&self, case: &EqCase) -> Outcome {
        let pool = program_pool(&case.program);
        let preds = program_preds(&case.program);
        let (_, facts) = g::build_interp(&case.facts, &preds, &[], &pool);
        let Some(closure) = asp_ref::closure(&case.program, &facts, 40) else {
            return Outcome::skip("closure not computable (unsafe or growing)");
        };
        let free: Vec<_> = closure.atoms().into_iter().filter(|(k, t)| !facts.holds(&k.0, t)).collect();
        if free.len() > 7 {
            return Outcome::skip("candidate universe too large");
        }
        let theory: Vec<ir::Fm> = case.program.clone().tau_star().formulas.iter().map(ir::lower).collect();
        let text = safe_print::asp_program(&case.program, &Style::plain());
        let mut stable_count = 0;
        for mask in 0u32..(1 << free.len()) {
            let mut j = facts.clone();
            for (i, (k, t)) in free.iter().enumerate() {
                if mask & (1 << i) != 0 {
                    j.insert(&k.0, t.clone());
                }
            }
            let Some(reference) = asp_ref::is_stable(&case.program, &facts, &j) else {
                return Outcome::skip("reference stability undecided");
            };
            // equilibrium: (J,J) |= theory, and no H with facts ⊆ H ⊊ J has (H,J) |= theory
            let total = match theory_sat(&theory, &j, &j, &pool) {
                Some(b) => b,
                None => return Outcome::skip("theory verdict not definite"),
            };
            let mut emitted = total;
            if total {
                let chosen: Vec<_> = free.iter().enumerate().filter(|(i, _)| mask & (1 << i) != 0).collect();
                let full = (1u32 << chosen.len()) - 1;
                for sub in 0..full {
                    let mut h = facts.clone();
                    for (n, (_, (k, t))) in chosen.iter().enumerate() {
                        if sub & (1 << n) != 0 {
                            h.insert(&k.0, t.clone());
                        }
                    }
                    match theory_sat(&theory, &h, &j, &pool) {
                        Some(true) => {
                            emitted = false;
                            break;
                        }
                        Some(false) => {}
                        None => return Outcome::skip("theory verdict not definite"),
                    }
                }
            }
            if reference != emitted {
                return Outcome::fail(
                    "stable-vs-equilibrium",
                    format!(
                        "C01: J is a stable model of the program with the facts: {reference}; J is an equilibrium model of the tau* theory with the facts: {emitted}\n  program: {text}\n  facts: {}\n  J: {}",
                        facts.json(),
                        j.json()
                    ),
                );
            }
            if reference {
                stable_count += 1;
            }
        }
        Outcome::pass(!free.is_empty(), hash64(&format!("{text}|{:?}", facts.preds)))
            .label(format!("stable_models={}", stable_count.min(4)))
            .label(format!("candidates={}", free.len()))
    }
    fn describe(&self, case: &EqCase) -> Value {
        json!({
            "program": safe_print::asp_program(&case.program, &Style::plain()),
            "facts": raw_json(&case.facts),
        })
    }
    fn from_replay(&self, j: &Value) -> Option<EqCase> {
        Some(EqCase {
            program: j["program"].as_str()?.parse().ok()?,
            facts: raw_from_json(&j["facts"])?,
        })
    }
}

#[allow(dead_code)]
fn unused(_: VarId) {}

// ---------------------------------------------------------------------------------------
// the front end: program text in the usual notation is read as the program it denotes

pub struct FrontEnd;

#[derive(Clone, Debug)]
pub struct FrontCase {
    pub program: asp::Program,
    pub via_cli: bool,
}

fn front_cfg() -> AspCfg {
    let mut c = AspCfg {
        num_lo: 0,
        term_depth: 4,
        ..cfg()
    };
    // names that begin like a keyword or with an underscore
    for (n, a) in [("not_q", 1), ("notp", 1), ("_r", 1), ("not_", 0)] {
        c.preds.push((n.to_string(), a));
    }
    c.syms.extend(["nota".to_string(), "_c".to_string(), "not_a".to_string()]);
    c
}

impl Check for FrontEnd {
    type Case = FrontCase;
    fn name(&self) -> &'static str {
        "front-end"
    }
    fn cases(&self, tier: Tier) -> usize {
        tier.pick(150_000, 3_000_000)
    }
    fn strategy(&self, _tier: Tier) -> BoxedStrategy<FrontCase> {
        (ga::program(&front_cfg()), 0u16..1500).prop_map(|(program, k)| FrontCase { program, via_cli: k == 0 }).boxed()
    }
    fn rule(&self) -> String {
        "random program with nested arithmetic (depth up to 4, non-negative numerals) written by the checker's own printer with as few parentheses as the usual conventions require (unary minus > * / \\ > + - > .., binary operators left-associative, nested intervals parenthesised); oracle: anthem reads the text as exactly that program (tree equality), and (1 in 1500) `anthem translate --with tau-star` on the text prints the theory the library computes from the tree; non-trivial = some term has two operators next to each other without parentheses; distinct by text".into()
    }
    fn run(&self, case: &FrontCase) -> Outcome {
        let text = safe_print::asp_program(&case.program, &Style::conventional());
        let plain = safe_print::asp_program(&case.program, &Style::plain());
        let parsed: Result<asp::Program, _> = text.parse();
        let parsed = match parsed {
            Ok(p) => p,
            Err(_) => {
                return Outcome::fail("conventional-text-rejected", format!("C01: the program text is rejected\n  text: {text}\n  meant: {plain}"));
            }
        };
        if parsed != case.program {
            return Outcome::fail(
                "text-read-differently",
                format!(
                    "C01: the program text is read as a different program\n  text : {text}\n  meant: {plain}\n  read : {}",
                    safe_print::asp_program(&parsed, &Style::plain())
                ),
            );
        }
        if case.via_cli {
            if let Some(bin) = crate::cli::anthem_bin() {
                // as a user would write it: comments and blank lines between the rules
                let commented: String = std::iter::once("% program\n\n".to_string()).chain(text.lines().map(|l| format!("{l} % rule\n\n"))).collect();
                let r = crate::cli::run(&bin, &["translate", "--with", "tau-star"], Some(&commented));
                let expected = format!("{}", case.program.clone().tau_star());
                if r.code != Some(0) || r.stdout.trim() != expected.trim() {
                    return Outcome::fail(
                        "cli-differs-from-library",
                        format!("C01: `anthem translate --with tau-star` on the text differs from tau* of the tree\n  text: {text}\n  exit: {:?}\n  cli : {}\n  lib : {}", r.code, r.stdout, expected),
                    );
                }
            }
        }
        // two operators adjacent without parentheses somewhere
        let bare = text.len() + 4 < plain.len();
        Outcome::pass(bare, hash64(&text)).label(format!("via_cli={}", case.via_cli))
    }
    fn describe(&self, case: &FrontCase) -> Value {
        json!({"program": safe_print::asp_program(&case.program, &Style::plain()), "conventional": safe_print::asp_program(&case.program, &Style::conventional()), "via_cli": case.via_cli})
    }
    fn from_replay(&self, j: &Value) -> Option<FrontCase> {
        Some(FrontCase {
            program: j["program"].as_str()?.parse().ok()?,
            via_cli: j["via_cli"].as_bool()?,
        })
    }
}
