//! C18 — fixpoint simplification terminates and is idempotent; outputs are deterministic.
use crate::checks::c07::{self, Source};
use crate::checks::roundtrip::Transform;
use crate::cli;
use crate::generators::asp as ga;
use crate::generators::fol as g;
use crate::ops;
use crate::runner::{Check, Outcome, Tier, hash64};
use crate::safe_print::{self, Style};
use anthem::syntax_tree::asp::mini_gringo as asp;
use anthem::syntax_tree::fol::sigma_0 as fol;
use anthem::translating::classical_reduction::gamma::Gamma as _;
use anthem::translating::formula_representation::tau_star::TauStar as _;
use proptest::prelude::*;
use serde_json::{Value, json};

#[derive(Clone, Debug)]
pub struct Case {
    pub source: Source,
    pub portfolio: usize,
}

pub struct Fixpoint;

impl Check for Fixpoint {
    type Case = Case;
    fn name(&self) -> &'static str {
        "fixpoint"
    }
    fn cases(&self, tier: Tier) -> usize {
        tier.pick(200_000, 4_000_000)
    }
    fn strategy(&self, _tier: Tier) -> BoxedStrategy<Case> {
        let fc = c07::fol_cfg();
        let ac = c07::asp_cfg();
        let source = prop_oneof![
            5 => g::guarded_formula(&fc).prop_map(Source::Formula),
            2 => g::formula(&fc).prop_map(Source::Formula),
            4 => (ga::program(&ac), any::<u8>(), any::<u8>()).prop_map(|(p, k, i)| Source::Program(p, k, i)),
        ];
        (source, 0usize..3)
            .prop_map(|(source, portfolio)| Case { source, portfolio })
            .boxed()
    }
    fn rule(&self) -> String {
        "formula (as in C07) x portfolio; the checker iterates the composed portfolio pass itself, keeping every intermediate formula: revisiting an earlier formula that is not the immediate predecessor is a proven cycle, more than 20*(size+10) passes is reported as non-termination suspect (exit 2, never a violation by itself); when it terminates the result must equal anthem's apply_fixpoint and simplifying it again with any strategy must return it unchanged; non-trivial = the fixpoint needed at least 2 changing passes; distinct by formula text + portfolio".into()
    }
    fn run(&self, case: &Case) -> Outcome {
        let Some(f) = case.source.formula() else {
            return Outcome::skip("no formula");
        };
        let portfolio = ops::PORTFOLIOS[case.portfolio];
        let shown = safe_print::formula(&f, &Style::plain());
        let size = crate::ir::lower(&f).size();
        let bound = 20 * (size + 10);
        let mut seen: Vec<fol::Formula> = vec![f.clone()];
        let mut passes = 0;
        loop {
            let cur = seen.last().unwrap().clone();
            let next = ops::simplify_pass(cur.clone(), portfolio);
            if next == cur {
                break;
            }
            passes += 1;
            if let Some(pos) = seen.iter().position(|x| *x == next) {
                return Outcome::fail(
                    "cycle",
                    format!(
                        "C18: {portfolio} fixpoint simplification cycles (pass {passes} returns to the formula of pass {pos})\n  formula: {shown}\n  cycle member: {next}"
                    ),
                );
            }
            if passes > bound {
                return Outcome::fail(
                    "no-fixpoint-within-bound",
                    format!("C18: {portfolio} simplification did not reach a fixpoint within {bound} passes\n  formula: {shown}"),
                );
            }
            seen.push(next);
        }
        let fixed = seen.last().unwrap().clone();
        let theirs = ops::simplify(f.clone(), portfolio, ops::Strategy::Fixpoint);
        if theirs != fixed {
            return Outcome::fail(
                "fixpoint-differs",
                format!("C18: apply_fixpoint differs from iterating the pass\n  formula: {shown}\n  apply_fixpoint: {theirs}\n  iterated: {fixed}"),
            );
        }
        for s in ops::STRATEGIES {
            let again = ops::simplify(fixed.clone(), portfolio, s);
            if again != fixed {
                return Outcome::fail(
                    "not-idempotent",
                    format!(
                        "C18: simplifying the {portfolio} fixpoint again ({}) changes it\n  formula: {shown}\n  fixpoint: {fixed}\n  again: {again}",
                        s.name()
                    ),
                );
            }
        }
        Outcome::pass(passes >= 2, hash64(&format!("{shown}|{portfolio}")))
            .label(format!("passes={}", passes.min(6)))
            .label(format!("portfolio={portfolio}"))
    }
    fn describe(&self, case: &Case) -> Value {
        let source = match &case.source {
            Source::Formula(f) => json!({"formula": safe_print::formula(f, &Style::plain())}),
            Source::Program(p, k, i) => json!({
                "program": safe_print::asp_program(p, &Style::plain()),
                "kind": k, "index": i,
            }),
        };
        json!({"source": source, "portfolio": ops::PORTFOLIOS[case.portfolio]})
    }
    fn from_replay(&self, j: &Value) -> Option<Case> {
        let s = &j["source"];
        let source = if let Some(p) = s.get("program") {
            Source::Program(p.as_str()?.parse().ok()?, s["kind"].as_u64()? as u8, s["index"].as_u64()? as u8)
        } else {
            Source::Formula(s["formula"].as_str()?.parse().ok()?)
        };
        Some(Case {
            source,
            portfolio: ops::PORTFOLIOS.iter().position(|p| Some(*p) == j["portfolio"].as_str())?,
        })
    }
}

/// called by the watchdog for a case of part fixpoint that has been running for two minutes in-process:
/// the same simplification through the real binary with a limit of 60 s; Some(message) if that run does
/// not finish either
pub fn confirm_nontermination(case_json: &str) -> Option<String> {
    let j: Value = serde_json::from_str(case_json).ok()?;
    let case = Fixpoint.from_replay(&j)?;
    let f = case.source.formula()?;
    let portfolio = ops::PORTFOLIOS[case.portfolio];
    let text = format!("{}.\n", safe_print::formula(&f, &Style::plain()));
    let bin = cli::anthem_bin()?;
    let r = cli::run_env(&bin, &["simplify", "--portfolio", portfolio, "--strategy", "fixpoint"], Some(&text), &[], std::time::Duration::from_secs(60));
    if r.timed_out {
        Some(format!(
            "C18: `anthem simplify --portfolio {portfolio} --strategy fixpoint` does not finish within 60 s (and not within two minutes in-process) on\n  {text}"
        ))
    } else {
        None
    }
}

// ---------------------------------------------------------------------------------------
// determinism across fresh processes

#[derive(Clone, Debug)]
pub enum DetCase {
    /// an external-equivalence task from the task generator (choices)
    External(Vec<u16>),
    Translate(asp::Program, Transform),
    Strong(asp::Program, asp::Program, Vec<&'static str>),
}

pub struct Determinism;

/// a run of the binary with a 60 s limit; a run that does not finish is not judged here (termination
/// is decided without a clock by part fixpoint), the case is skipped
fn run60(bin: &std::path::Path, args: &[&str], stdin: Option<&str>) -> cli::RunResult {
    cli::run_env(bin, args, stdin, &[], std::time::Duration::from_secs(60))
}

fn det_cfg() -> ga::AspCfg {
    ga::AspCfg {
        preds: vec![("p".into(), 1), ("q".into(), 1), ("r".into(), 2), ("s".into(), 0), ("t".into(), 1), ("u".into(), 3)],
        vars: vec!["X".into(), "Y".into(), "Z".into()],
        syms: vec!["a".into(), "b".into(), "c".into(), "dd".into(), "e1".into()],
        num_lo: -2,
        num_hi: 5,
        term_depth: 2,
        op_weights: [4, 3, 3, 2, 2, 3],
        max_body: 3,
        max_rules: 5,
        exotic_leaf_weight: 6,
    }
}

impl Check for Determinism {
    type Case = DetCase;
    fn name(&self) -> &'static str {
        "determinism"
    }
    fn shards(&self) -> usize {
        8
    }
    fn cases(&self, tier: Tier) -> usize {
        tier.pick(600, 10_000)
    }
    fn shrink_steps(&self) -> usize {
        // every re-execution starts the binary three times or more
        120
    }
    fn strategy(&self, _tier: Tier) -> BoxedStrategy<DetCase> {
        let c = det_cfg();
        let flags = prop::sample::subsequence(
            vec!["--no-simplify", "--no-eq-break", "--decomposition=independent", "--formula-representation=mu"],
            0..=4,
        );
        prop_oneof![
            1 => crate::generators::task::choices(184).prop_map(DetCase::External),
            // up to 14 rules: a command that handled the formulas of a longer theory concurrently
            // would have to keep their order
            1 => (
                prop_oneof![
                    3 => ga::program(&ga::AspCfg { max_rules: 14, ..c.clone() }),
                    // one program in four has 32-72 rules (a size at which work may be split among threads)
                    1 => proptest::collection::vec(ga::shaped_rule(&c), 32..72).prop_map(|rules| asp::Program { rules }),
                ],
                prop::sample::select(Transform::all())
            )
                .prop_map(|(p, t)| DetCase::Translate(p, t)),
            1 => (ga::program(&c), ga::program(&c), flags, 0u8..4).prop_map(|(a, b, mut f, d)| {
                match d {
                    1 => f.push("--direction=forward"),
                    2 => f.push("--direction=backward"),
                    _ => {}
                }
                DetCase::Strong(a, b, f)
            }),
        ]
        .boxed()
    }
    fn rule(&self) -> String {
        "random program (many predicates and symbols so that any ordering taken from a hash map would vary; up to 14 rules, one in four of the translated ones 32-72 rules) given to the real binary three times in fresh processes: translate/simplify output, or the set of problem files written by verify --equivalence strong --no-proof-search --save-problems under random flags; oracle: byte-identical stdout / identical file sets and contents, and equal to the in-process result; non-trivial = output of at least 200 bytes mentioning at least 3 predicates or symbols; distinct by output".into()
    }
    fn run(&self, case: &DetCase) -> Outcome {
        let Some(bin) = cli::anthem_bin() else {
            return Outcome::skip("ANTHEM_BIN not set");
        };
        match case {
            DetCase::External(choices) => {
                use crate::generators::task::{self as gt, Chooser};
                let mut c = Chooser::new(choices.clone());
                let names = if c.flag(1, 2) { gt::Names::tricky(&mut c) } else { gt::Names::clean(&mut c) };
                let mut task = gt::external_task_with(&mut c, names);
                let flags = gt::flags(&mut c);
                // half of the tasks get two more annotated formulas of roles a user guide ignores,
                // each with a warning of its own on stdout: the order of warnings must not vary either
                if c.aux(41, 2) == 1 {
                    let i = task.names.inputs[0].clone();
                    for (k, role) in [fol::Role::Lemma, fol::Role::Spec, fol::Role::InductiveLemma].into_iter().enumerate().take(2 + c.aux(42, 2)) {
                        let text = if i.1 == 0 { format!("{} or not {}", i.0, i.0) } else { format!("forall X ({}(X) -> {}(X) or X = {k})", i.0, i.0) };
                        if let Ok(f) = text.parse::<fol::Formula>() {
                            task.user_guide.entries.push(fol::UserGuideEntry::AnnotatedFormula(gt::annotated(role, fol::Direction::Universal, "", f)));
                        }
                    }
                }
                // half of the tasks come with a generated proof outline (definitions, lemmas, inductive lemmas
                // with several parameters); choice vectors shorter than 184 predate this
                let mut outline = ops::empty_outline();
                if choices.len() >= 184 && c.aux(74, 2) == 0 {
                    let mut oc = Chooser::new(choices.iter().rev().cloned().collect());
                    let entries = crate::checks::c13::outline(&mut oc, &task);
                    let candidate = fol::Specification { formulas: entries.iter().map(|e| e.formula.clone()).collect() };
                    if ops::external_problems(&task, &candidate, &flags, false).is_ok() {
                        outline = candidate;
                    }
                }
                let dir = cli::scratch_dir("c18x");
                let mut files: Vec<String> = vec![];
                match (&task.left_program, &task.left_spec) {
                    (Some(p), _) => {
                        std::fs::write(dir.join("a.lp"), safe_print::asp_program(p, &Style::plain())).unwrap();
                        files.push(dir.join("a.lp").to_string_lossy().to_string());
                    }
                    (_, Some(sp)) => {
                        std::fs::write(dir.join("s.spec"), safe_print::specification(sp, &Style::plain())).unwrap();
                        files.push(dir.join("s.spec").to_string_lossy().to_string());
                    }
                    _ => {}
                }
                std::fs::write(dir.join("b.lp"), safe_print::asp_program(&task.right, &Style::plain())).unwrap();
                files.push(dir.join("b.lp").to_string_lossy().to_string());
                std::fs::write(dir.join("u.ug"), safe_print::user_guide(&task.user_guide, &Style::plain())).unwrap();
                files.push(dir.join("u.ug").to_string_lossy().to_string());
                if !outline.formulas.is_empty() {
                    std::fs::write(dir.join("o.po"), safe_print::specification(&outline, &Style::plain())).unwrap();
                    files.push(dir.join("o.po").to_string_lossy().to_string());
                }
                let mut snapshots = vec![];
                let mut streams: Vec<(String, String)> = vec![];
                for i in 0..3 {
                    let out = dir.join(format!("out{i}"));
                    std::fs::create_dir_all(&out).unwrap();
                    let mut args: Vec<String> = vec![
                        "verify".into(),
                        "--equivalence".into(),
                        "external".into(),
                        "--no-proof-search".into(),
                        "--save-problems".into(),
                        out.to_string_lossy().to_string(),
                        "--direction".into(),
                        match flags.direction {
                            fol::Direction::Universal => "universal".into(),
                            fol::Direction::Forward => "forward".into(),
                            fol::Direction::Backward => "backward".into(),
                        },
                        "--decomposition".into(),
                        if flags.sequential { "sequential".into() } else { "independent".into() },
                    ];
                    if !flags.simplify {
                        args.push("--no-simplify".into());
                    }
                    if !flags.eq_break {
                        args.push("--no-eq-break".into());
                    }
                    args.extend(files.iter().cloned());
                    let argv: Vec<&str> = args.iter().map(|s| s.as_str()).collect();
                    let r = run60(&bin, &argv, None);
                    if r.timed_out {
                        let _ = std::fs::remove_dir_all(&dir);
                        return Outcome::skip("a run did not finish within 60 s (termination is decided by part fixpoint)");
                    }
                    let outs = out.to_string_lossy().to_string();
                    streams.push((r.stdout.replace(&outs, "OUT"), r.stderr.replace(&outs, "OUT")));
                    snapshots.push((r.code, cli::snapshot_dir(&out)));
                }
                let _ = std::fs::remove_dir_all(&dir);
                let description = format!(
                    "{}{}",
                    crate::checks::problems::describe_external(&task),
                    if outline.formulas.is_empty() { String::new() } else { format!("\n  outline: {}", safe_print::specification(&outline, &Style::plain())) }
                );
                if snapshots.iter().any(|s| *s != snapshots[0]) {
                    return Outcome::fail(
                        "nondeterministic-problems",
                        format!("C18: verify --equivalence external wrote different files in separate processes\n{description}\n  flags: {}", flags.describe()),
                    );
                }
                if let Some(other) = streams.iter().find(|s| **s != streams[0]) {
                    return Outcome::fail(
                        "nondeterministic-messages",
                        format!(
                            "C18: verify --equivalence external printed different messages in separate processes\n--- run 1 stdout ---\n{}\n--- another run ---\n{}\n--- stderr 1 ---\n{}\n--- stderr other ---\n{}\n{description}\n  flags: {}",
                            streams[0].0, other.0, streams[0].1, other.1, flags.describe()
                        ),
                    );
                }
                // the library path (hooks) must produce the same files as the command line
                if let Ok((problems, _)) = ops::external_problems(&task, &outline, &flags, false) {
                    let mut lib: Vec<(String, String)> = problems.iter().map(|p| (format!("{}.p", p.name), p.text.clone())).collect();
                    lib.sort();
                    if snapshots[0].0 == Some(0) && lib != snapshots[0].1 {
                        return Outcome::fail(
                            "cli-differs-from-library",
                            format!(
                                "C18: the problem files written by the command line differ from the problems of the same task generated in-process\n{description}\n  flags: {}\n  cli files: {:?}\n  library: {:?}",
                                flags.describe(),
                                snapshots[0].1.iter().map(|x| &x.0).collect::<Vec<_>>(),
                                lib.iter().map(|x| &x.0).collect::<Vec<_>>()
                            ),
                        );
                    }
                } else if snapshots[0].0 == Some(0) {
                    return Outcome::fail("cli-differs-from-library", format!("C18: the command line accepts a task the library refuses\n{description}"));
                }
                let total: usize = snapshots[0].1.iter().map(|(_, c)| c.len()).sum();
                Outcome::pass(total >= 200 && snapshots[0].0 == Some(0), hash64(&format!("{:?}", snapshots[0].1))).label("cmd=verify-external")
            }
            DetCase::Translate(p, t) => {
                let text = safe_print::asp_program(p, &Style::plain());
                let mut outputs = vec![];
                for _ in 0..3 {
                    let r = match t {
                        Transform::TauStar | Transform::Natural | Transform::Mu => {
                            run60(&bin, &["translate", "--with", &t.name()], Some(&text))
                        }
                        Transform::Gamma | Transform::Completion | Transform::Simplify(..) => {
                            // these commands read a theory: feed them the tau* theory
                            let first = run60(&bin, &["translate", "--with", "tau-star"], Some(&text));
                            if first.code != Some(0) {
                                return Outcome::skip("tau-star failed");
                            }
                            match t {
                                Transform::Gamma => run60(&bin, &["translate", "--with", "gamma"], Some(&first.stdout)),
                                Transform::Completion => {
                                    run60(&bin, &["translate", "--with", "completion"], Some(&first.stdout))
                                }
                                Transform::Simplify(pf, st) => cli::run(
                                    &bin,
                                    &["simplify", "--portfolio", pf, "--strategy", st.name()],
                                    Some(&first.stdout),
                                ),
                                _ => unreachable!(),
                            }
                        }
                    };
                    if r.timed_out {
                        return Outcome::skip("a run did not finish within 60 s (termination is decided by part fixpoint)");
                    }
                    outputs.push((r.code, r.stdout));
                }
                if outputs.iter().any(|o| *o != outputs[0]) {
                    return Outcome::fail(
                        "nondeterministic-output",
                        format!("C18: {} printed different output in separate processes\n  program: {text}\n  outputs: {outputs:?}", t.name()),
                    );
                }
                if outputs[0].0 == Some(0) {
                    // the in-process result must agree: the command does what the library does (gamma,
                    // completion and simplify are applied by the commands to the printed tau* theory, by
                    // the library to the tau* tree - the round trip in between is C15's business, so a
                    // difference is only reported when the printed theory reads back as the same tree)
                    let comparable = match t {
                        Transform::TauStar | Transform::Natural | Transform::Mu => true,
                        _ => {
                            let tau = p.clone().tau_star();
                            tau.to_string().parse::<fol::Theory>().map(|back| back == tau).unwrap_or(false)
                        }
                    };
                    if comparable {
                        // (the gamma command was given the tau* theory above)
                        let expected = if matches!(t, Transform::Gamma) { Some(p.clone().tau_star().gamma()) } else { t.apply(p) };
                        if let Some(th) = expected {
                            if th.to_string() != outputs[0].1 {
                                return Outcome::fail(
                                    "cli-differs-from-library",
                                    format!("C18: {} prints {:?} but the library gives {:?}", t.name(), outputs[0].1, th.to_string()),
                                );
                            }
                        }
                    }
                }
                let out = &outputs[0].1;
                Outcome::pass(out.len() >= 200, hash64(out)).label(format!("cmd={}", t.name()))
            }
            DetCase::Strong(a, b, flags) => {
                let dir = cli::scratch_dir("c18");
                // the two programs are named in one of several ways (against the alphabet, through a
                // directory, a file next to its directory): left is always the first program
                let (ta, tb) = (safe_print::asp_program(a, &Style::plain()), safe_print::asp_program(b, &Style::plain()));
                let layout = (hash64(&format!("{ta}|{tb}")) % cli::STRONG_LAYOUTS as u64) as usize;
                let paths = cli::strong_layout(&dir, &ta, &tb, layout);
                let mut snapshots = vec![];
                let mut streams: Vec<(String, String)> = vec![];
                for i in 0..3 {
                    let out = dir.join(format!("out{i}"));
                    std::fs::create_dir_all(&out).unwrap();
                    let mut args: Vec<String> = vec![
                        "verify".into(),
                        "--equivalence".into(),
                        "strong".into(),
                        "--no-proof-search".into(),
                        "--save-problems".into(),
                        out.to_string_lossy().to_string(),
                    ];
                    args.extend(flags.iter().map(|s| s.to_string()));
                    args.extend(paths.iter().cloned());
                    let argv: Vec<&str> = args.iter().map(|s| s.as_str()).collect();
                    let r = run60(&bin, &argv, None);
                    if r.timed_out {
                        let _ = std::fs::remove_dir_all(&dir);
                        return Outcome::skip("a run did not finish within 60 s (termination is decided by part fixpoint)");
                    }
                    let outs = out.to_string_lossy().to_string();
                    streams.push((r.stdout.replace(&outs, "OUT"), r.stderr.replace(&outs, "OUT")));
                    snapshots.push((r.code, cli::snapshot_dir(&out)));
                }
                let _ = std::fs::remove_dir_all(&dir);
                if snapshots.iter().any(|s| *s != snapshots[0]) {
                    return Outcome::fail(
                        "nondeterministic-problems",
                        format!(
                            "C18: verify --save-problems wrote different files in separate processes (argument layout {layout})\n  left: {}\n  right: {}\n  flags: {flags:?}",
                            safe_print::asp_program(a, &Style::plain()),
                            safe_print::asp_program(b, &Style::plain())
                        ),
                    );
                }
                // the command line wires its options to the library: same files as the problems built in-process
                if snapshots[0].0 == Some(0) {
                    let has = |f: &str| flags.iter().any(|x| *x == f);
                    let lib_flags = crate::generators::task::Flags {
                        sequential: !has("--decomposition=independent"),
                        direction: if has("--direction=forward") {
                            fol::Direction::Forward
                        } else if has("--direction=backward") {
                            fol::Direction::Backward
                        } else {
                            fol::Direction::Universal
                        },
                        simplify: !has("--no-simplify"),
                        eq_break: !has("--no-eq-break"),
                    };
                    let mut lib: Vec<(String, String)> = ops::strong_problems(a, b, &lib_flags, has("--formula-representation=mu"))
                        .iter()
                        .map(|p| (format!("{}.p", p.name), p.text.clone()))
                        .collect();
                    lib.sort();
                    // the in-process programs are the generated trees, the command reads their printed text:
                    // compare only when the text reads back as the same programs (C14's business otherwise)
                    let same = |p: &asp::Program| safe_print::asp_program(p, &Style::plain()).parse::<asp::Program>().map(|q| q == *p).unwrap_or(false);
                    if same(a) && same(b) && lib != snapshots[0].1 {
                        return Outcome::fail(
                            "cli-differs-from-library",
                            format!(
                                "C18: the problem files written by `verify --equivalence strong` (argument layout {layout}) differ from the problems generated in-process with the same options\n  left: {}\n  right: {}\n  flags: {flags:?}\n  cli files: {:?}\n  library: {:?}",
                                safe_print::asp_program(a, &Style::plain()),
                                safe_print::asp_program(b, &Style::plain()),
                                snapshots[0].1.iter().map(|x| &x.0).collect::<Vec<_>>(),
                                lib.iter().map(|x| &x.0).collect::<Vec<_>>()
                            ),
                        );
                    }
                }
                let total: usize = snapshots[0].1.iter().map(|(_, c)| c.len()).sum();
                let key = hash64(&format!("{:?}", snapshots[0].1));
                Outcome::pass(total >= 200 && snapshots[0].0 == Some(0), key).label("cmd=verify-strong")
            }
        }
    }
    fn describe(&self, case: &DetCase) -> Value {
        match case {
            DetCase::External(c) => json!({"external": c}),
            DetCase::Translate(p, t) => json!({"program": safe_print::asp_program(p, &Style::plain()), "transform": t.name()}),
            DetCase::Strong(a, b, f) => json!({
                "left": safe_print::asp_program(a, &Style::plain()),
                "right": safe_print::asp_program(b, &Style::plain()),
                "flags": f,
            }),
        }
    }
    fn from_replay(&self, j: &Value) -> Option<DetCase> {
        if let Some(c) = j.get("external") {
            return Some(DetCase::External(c.as_array()?.iter().map(|x| x.as_u64().unwrap() as u16).collect()));
        }
        if let Some(p) = j.get("program") {
            Some(DetCase::Translate(p.as_str()?.parse().ok()?, Transform::parse(j["transform"].as_str()?)?))
        } else {
            let all = ["--no-simplify", "--no-eq-break", "--decomposition=independent", "--formula-representation=mu", "--direction=forward", "--direction=backward"];
            let flags = j["flags"]
                .as_array()?
                .iter()
                .filter_map(|x| all.iter().find(|a| Some(**a) == x.as_str()).copied())
                .collect();
            Some(DetCase::Strong(j["left"].as_str()?.parse().ok()?, j["right"].as_str()?.parse().ok()?, flags))
        }
    }
}
