//! C20 — the role of each input file depends only on its extension and the argument order.
use crate::cli;
use crate::generators::task::{self as gt, Chooser};
use crate::runner::{Check, Outcome, Tier, hash64};
use proptest::prelude::*;
use serde_json::{Value, json};
use std::collections::BTreeSet;
use std::path::{Path, PathBuf};

#[derive(Clone, Debug)]
pub struct Case {
    pub choices: Vec<u16>,
}

pub struct C20;

#[derive(Clone, Debug)]
struct FileSpec {
    /// path relative to the scenario root
    rel: String,
    ext: &'static str,
    marker: usize,
}

const NAMES: [&str; 10] = ["a", "B", "b", "c", ".h", "Z9", "m", "a0", "_x", "zz"];
const DIRS: [&str; 4] = ["d1", "D2", "d1/sub", "x"];

fn content(ext: &str, k: usize) -> String {
    // every file carries a numeral marker: 2000+k programs, 3000+k specifications,
    // 1000+k user guides; proof outlines carry a lemma named po<k>
    match ext {
        "lp" => format!("out(X) :- in(X), X != {}.\n", 2000 + k),
        "spec" => format!("spec: forall X (out(X) -> X != {}).\n", 3000 + k),
        "ug" => format!("input: in/1.\noutput: out/1.\nassumption: forall X (in(X) -> X != {}).\n", 1000 + k),
        "po" => format!("lemma[po{k}]: forall X (in(X) -> in(X)).\n"),
        _ => format!("out(X) :- in(X), X != {}. % not an input file\n", 2000 + k),
    }
}

fn numeral_markers(text: &str, base: usize, count: usize) -> BTreeSet<usize> {
    (0..count).filter(|k| text.contains(&format!("{}", base + k))).collect()
}

/// reference model: arguments in order; a directory contributes its files depth-first with the
/// entries of each directory in byte-wise file-name order
fn walk(root: &Path, rel: &str, out: &mut Vec<String>) {
    let p = root.join(rel);
    if p.is_file() {
        out.push(rel.to_string());
        return;
    }
    let mut entries: Vec<String> = std::fs::read_dir(&p)
        .map(|rd| rd.flatten().map(|e| e.file_name().to_string_lossy().to_string()).collect())
        .unwrap_or_default();
    entries.sort_by(|a, b| a.as_bytes().cmp(b.as_bytes()));
    for e in entries {
        walk(root, &format!("{rel}/{e}"), out);
    }
}

fn ext_of(rel: &str) -> Option<&str> {
    let name = rel.rsplit('/').next().unwrap_or(rel);
    // std::path::Path::extension semantics: ".h" has no extension, "a.lp.bak" has "bak"
    let stem_start = if name.starts_with('.') { 1 } else { 0 };
    name[stem_start..].rfind('.').map(|i| &name[stem_start + i + 1..])
}

fn markers_in(text: &str, prefix: &str) -> BTreeSet<usize> {
    let mut out = BTreeSet::new();
    let bytes = text.as_bytes();
    let mut i = 0;
    while let Some(pos) = text[i..].find(prefix) {
        let start = i + pos;
        let before_ok = start == 0 || !(bytes[start - 1].is_ascii_alphanumeric() || bytes[start - 1] == b'_');
        let mut j = start + prefix.len();
        while j < bytes.len() && bytes[j].is_ascii_digit() {
            j += 1;
        }
        if before_ok && j > start + prefix.len() {
            if let Ok(n) = text[start + prefix.len()..j].parse::<usize>() {
                out.insert(n);
            }
        }
        i = start + prefix.len();
    }
    out
}

impl Check for C20 {
    type Case = Case;
    fn name(&self) -> &'static str {
        "file-roles"
    }
    fn shards(&self) -> usize {
        8
    }
    fn shrink_steps(&self) -> usize {
        120
    }
    fn cases(&self, tier: Tier) -> usize {
        tier.pick(3_000, 60_000)
    }
    fn strategy(&self, _tier: Tier) -> BoxedStrategy<Case> {
        gt::choices(120).prop_map(|choices| Case { choices }).boxed()
    }
    fn rule(&self) -> String {
        "a generated set of marker files (2-5 programs mK.lp each defining its own predicate, 0-2 .spec, 1-2 .ug, 0-2 .po, files with other extensions) placed at top level or in directories (created in non-sorted order, names with mixed case, digits, leading dot/underscore, one nesting level, one file in five a symbolic link to a file stored elsewhere) and a generated permutation of the arguments, one case in four with one argument given twice in a row; strong and external equivalence; oracle: a reference model (arguments in order, directory contents depth-first in byte-wise name order, first/second .lp, first .spec/.ug/.po) predicts which markers must appear among the axioms and among the conjectures of the forward problems written by --save-problems (and that the run fails when a required file is missing); non-trivial = at least 3 .lp files or a directory argument; distinct by scenario".into()
    }
    fn run(&self, case: &Case) -> Outcome {
        let Some(bin) = cli::anthem_bin() else {
            return Outcome::skip("ANTHEM_BIN not set");
        };
        let mut c = Chooser::new(case.choices.clone());
        let external = c.flag(1, 2);
        let root = cli::scratch_dir("c20");
        let cleanup = |o: Outcome| {
            let _ = std::fs::remove_dir_all(&root);
            o
        };
        // files
        let mut files: Vec<FileSpec> = vec![];
        let mut used: BTreeSet<String> = BTreeSet::new();
        let mut marker = 0;
        let counts: [(&'static str, usize); 5] = [
            ("lp", 2 + c.next(4)),
            ("spec", if external { c.next(3) } else { c.next(2) }),
            ("ug", if external { 1 + c.next(2) } else { c.next(2) }),
            ("po", c.next(3)),
            ("txt", c.next(3)),
        ];
        for (ext, n) in counts {
            for _ in 0..n {
                for _attempt in 0..20 {
                    let name = *c.pick(&NAMES);
                    let dir = if c.flag(1, 2) { "" } else { *c.pick(&DIRS) };
                    let fname = if ext == "txt" && c.flag(1, 2) { format!("{name}.lp.bak") } else { format!("{name}.{ext}") };
                    let rel = if dir.is_empty() { fname } else { format!("{dir}/{fname}") };
                    if used.insert(rel.clone()) {
                        files.push(FileSpec { rel, ext, marker });
                        marker += 1;
                        break;
                    }
                }
            }
        }
        // create in a scrambled order
        let mut order: Vec<usize> = (0..files.len()).collect();
        for i in (1..order.len()).rev() {
            order.swap(i, c.next(i + 1));
        }
        let store = root.join("out__store");
        for i in &order {
            let f = &files[*i];
            let p = root.join(&f.rel);
            std::fs::create_dir_all(p.parent().unwrap()).unwrap();
            // one file in five is a symbolic link to a file kept elsewhere (under a name without
            // extension): its role follows from the name it is given under, like any other file
            if c.aux(83 + *i as u64, 5) == 0 {
                std::fs::create_dir_all(&store).unwrap();
                let target = store.join(format!("original{}", f.marker));
                std::fs::write(&target, content(f.ext, f.marker)).unwrap();
                std::os::unix::fs::symlink(&target, &p).unwrap();
            } else {
                std::fs::write(&p, content(f.ext, f.marker)).unwrap();
            }
        }
        // arguments: top-level entries in a generated order (d1/sub is reached through d1)
        let mut tops: Vec<String> = files
            .iter()
            .map(|f| f.rel.split('/').next().unwrap().to_string())
            .collect::<BTreeSet<_>>()
            .into_iter()
            .collect();
        for i in (1..tops.len()).rev() {
            tops.swap(i, c.next(i + 1));
        }
        // one case in four names one argument twice in a row (the same spelling): every occurrence
        // counts, so a program given twice is both the first and the second program
        if c.aux(81, 4) == 0 && !tops.is_empty() {
            let i = c.aux(82, tops.len());
            let again = tops[i].clone();
            tops.insert(i + 1, again);
        }
        let mut listed: Vec<String> = vec![];
        for t in &tops {
            walk(&root, t, &mut listed);
        }
        let of_ext = |e: &str| -> Vec<usize> {
            listed
                .iter()
                .filter(|rel| ext_of(rel) == Some(e))
                .map(|rel| files.iter().find(|f| f.rel == **rel).unwrap().marker)
                .collect()
        };
        let (lps, specs, ugs, pos) = (of_ext("lp"), of_ext("spec"), of_ext("ug"), of_ext("po"));
        let out = root.join("out__");
        std::fs::create_dir_all(&out).unwrap();
        let mut args: Vec<String> = vec![
            "verify".into(),
            "--equivalence".into(),
            if external { "external".into() } else { "strong".into() },
            "--no-proof-search".into(),
            "--no-simplify".into(),
            // independent decomposition: no conclusion of the program is reused as an axiom
            "--decomposition".into(),
            "independent".into(),
            "--save-problems".into(),
            out.to_string_lossy().to_string(),
        ];
        args.extend(tops.iter().map(|t| root.join(t).to_string_lossy().to_string()));
        let argv: Vec<&str> = args.iter().map(|s| s.as_str()).collect();
        let r = cli::run(&bin, &argv, None);
        let description = format!(
            "files: {:?}\n  arguments: {tops:?}\n  walk order: {listed:?}\n  equivalence: {}",
            files.iter().map(|f| format!("{}=#{}", f.rel, f.marker)).collect::<Vec<_>>(),
            if external { "external" } else { "strong" }
        );
        let key = hash64(&description);
        let has_dir = tops.iter().any(|t| root.join(t).is_dir());
        let nontrivial = lps.len() >= 3 || has_dir;
        let problems = cli::snapshot_dir(&out);
        // expected roles: (family base, marker) on the axiom side and on the conjecture side
        let spec_role: Option<(usize, usize)> = if external {
            specs.first().map(|k| (3000, *k)).or(lps.first().map(|k| (2000, *k)))
        } else {
            lps.first().map(|k| (2000, *k))
        };
        let program_role: Option<(usize, usize)> = if external && !specs.is_empty() {
            lps.first().map(|k| (2000, *k))
        } else {
            lps.get(1).map(|k| (2000, *k))
        };
        let required_ok = spec_role.is_some() && program_role.is_some() && (!external || !ugs.is_empty());
        if !required_ok {
            return cleanup(if r.code == Some(0) && !problems.is_empty() {
                Outcome::fail("missing-file-accepted", format!("C20: a required file is missing but problems were written\n  {description}"))
            } else {
                Outcome::pass(false, key).label("missing-required-file")
            });
        }
        if r.code != Some(0) {
            return cleanup(Outcome::fail(
                "valid-arguments-refused",
                format!("C20: verify failed (exit {:?}) on arguments that provide every required file\n  stderr: {}\n  {description}", r.code, r.stderr),
            ));
        }
        let mut axioms = String::new();
        let mut conjectures = String::new();
        let mut seen_forward = false;
        for (name, text) in &problems {
            if !name.starts_with("forward") || name.contains("outline") {
                continue;
            }
            seen_forward = true;
            for line in text.lines() {
                if line.contains(", axiom,") {
                    axioms.push_str(line);
                    axioms.push('\n');
                } else if line.contains(", conjecture,") {
                    conjectures.push_str(line);
                    conjectures.push('\n');
                }
            }
        }
        if !seen_forward {
            return cleanup(Outcome::fail("no-forward-problems", format!("C20: no forward problems were written\n  {description}")));
        }
        let (sb, sk) = spec_role.unwrap();
        let (pb, pk) = program_role.unwrap();
        // axiom side: exactly the specification-role marker of its family; the program under
        // verification contributes nothing to the forward axioms
        let mut expected_axiom_programs: BTreeSet<usize> = BTreeSet::new();
        let mut expected_axiom_specs: BTreeSet<usize> = BTreeSet::new();
        if sb == 2000 {
            expected_axiom_programs.insert(sk);
        } else {
            expected_axiom_specs.insert(sk);
        }
        let got_p = numeral_markers(&axioms, 2000, marker);
        let got_s = numeral_markers(&axioms, 3000, marker);
        if got_p != expected_axiom_programs || got_s != expected_axiom_specs {
            return cleanup(Outcome::fail(
                "wrong-axioms",
                format!("C20: forward axioms carry program markers {got_p:?} and specification markers {got_s:?}; expected {expected_axiom_programs:?} and {expected_axiom_specs:?}\n  {description}"),
            ));
        }
        let got_c = numeral_markers(&conjectures, pb, marker);
        if got_c != BTreeSet::from([pk]) || !numeral_markers(&conjectures, 3000, marker).is_empty() {
            return cleanup(Outcome::fail(
                "wrong-conjectures",
                format!("C20: forward conjectures carry program markers {got_c:?}, expected {{{pk}}}\n  {description}"),
            ));
        }
        if external {
            let ug = ugs[0];
            let found = numeral_markers(&axioms, 1000, marker);
            if found != BTreeSet::from([ug]) {
                return cleanup(Outcome::fail("wrong-user-guide", format!("C20: user-guide markers {found:?} in the axioms, expected #{ug}\n  {description}")));
            }
            let all_text: String = problems.iter().map(|p| p.1.clone()).collect();
            let found: BTreeSet<usize> = (0..marker).filter(|k| all_text.contains(&format!("_po{k},"))).collect();
            let expected: BTreeSet<usize> = pos.first().map(|k| BTreeSet::from([*k])).unwrap_or_default();
            if found != expected {
                return cleanup(Outcome::fail("wrong-proof-outline", format!("C20: proof-outline markers {found:?}, expected {expected:?}\n  {description}")));
            }
        }
        cleanup(
            Outcome::pass(nontrivial, key)
                .readable(description.clone())
                .label(if external { "external" } else { "strong" })
                .label(format!("lp={}", lps.len().min(5)))
                .label(format!("dir-argument={has_dir}"))
                .label(format!("spec={}", specs.len().min(2))),
        )
    }
    fn describe(&self, case: &Case) -> Value {
        json!({"choices": case.choices})
    }
    fn from_replay(&self, j: &Value) -> Option<Case> {
        Some(Case {
            choices: j["choices"].as_array()?.iter().map(|x| x.as_u64().unwrap() as u16).collect(),
        })
    }
}

#[allow(dead_code)]
fn unused(_: PathBuf) {}

// ---------------------------------------------------------------------------------------
// the swap clause: exchanging the two programs exchanges axioms and conjectures between directions

use crate::generators::asp as ga;
use crate::ops;
use crate::safe_print::{self, Style};
use anthem::syntax_tree::asp::mini_gringo as asp;
use anthem::syntax_tree::fol::sigma_0 as fol;
use anthem::verif::ProblemData;

#[derive(Clone, Debug)]
pub enum SwapCase {
    Strong { left: asp::Program, right: asp::Program, mu: bool, choices: Vec<u16> },
    External { choices: Vec<u16> },
}

pub struct Swap;

/// a problem without its names: (sorted axioms, conjectures)
fn shape(p: &ProblemData) -> (Vec<String>, Vec<String>) {
    let mut ax: Vec<String> = p.formulas.iter().filter(|f| !f.conjecture).map(|f| f.formula.to_string()).collect();
    ax.sort();
    let cj: Vec<String> = p.formulas.iter().filter(|f| f.conjecture).map(|f| f.formula.to_string()).collect();
    (ax, cj)
}

fn family(problems: &[ProblemData], prefix: &str) -> Vec<(Vec<String>, Vec<String>)> {
    let mut v: Vec<_> = problems.iter().filter(|p| p.name.starts_with(prefix)).map(shape).collect();
    v.sort();
    v
}

fn opposite(d: fol::Direction) -> fol::Direction {
    match d {
        fol::Direction::Forward => fol::Direction::Backward,
        fol::Direction::Backward => fol::Direction::Forward,
        fol::Direction::Universal => fol::Direction::Universal,
    }
}

fn swap_cfg() -> ga::AspCfg {
    ga::AspCfg {
        preds: vec![("p".into(), 1), ("q".into(), 1), ("r".into(), 2), ("s".into(), 0), ("t".into(), 1), ("u".into(), 0)],
        vars: vec!["X".into(), "Y".into()],
        // hs, tu: symbolic constants spelled like the here-/there-copy of a propositional atom of the
        // pool (anthem renames such a constant in every problem it occurs in)
        syms: vec!["a".into(), "b".into(), "hs".into(), "tu".into()],
        num_lo: 0,
        num_hi: 3,
        term_depth: 1,
        op_weights: [3, 2, 1, 1, 1, 2],
        max_body: 3,
        max_rules: 3,
        exotic_leaf_weight: 1,
    }
}

impl Check for Swap {
    type Case = SwapCase;
    fn name(&self) -> &'static str {
        "swap"
    }
    fn cases(&self, tier: Tier) -> usize {
        tier.pick(30_000, 600_000)
    }
    fn strategy(&self, _tier: Tier) -> BoxedStrategy<SwapCase> {
        let c = swap_cfg();
        prop_oneof![
            2 => (ga::program(&c), ga::program(&c), any::<bool>(), gt::choices(8)).prop_map(|(left, right, mu, choices)| SwapCase::Strong { left, right, mu, choices }),
            1 => gt::choices(180).prop_map(|choices| SwapCase::External { choices }),
        ]
        .boxed()
    }
    fn rule(&self) -> String {
        "two unrelated random programs (strong equivalence, tau-star and mu; symbolic constants include hs and tu, spelled like the here-/there-copy of a propositional atom and therefore renamed by anthem) or a program-vs-program external task with disjoint private names, under generated decomposition / direction / simplify / eq-break flags; oracle: the problems emitted for (A, B) in one direction and the problems emitted for (B, A) in the opposite direction are the same multiset of (set of axioms, conjectures), formula and problem names aside, and no problem of an unrequested direction appears; non-trivial = the two programs differ and at least one problem was emitted; distinct by programs + flags".into()
    }
    fn run(&self, case: &SwapCase) -> Outcome {
        let (ab, ba, flags, description, differ) = match case {
            SwapCase::Strong { left, right, mu, choices } => {
                let mut c = Chooser::new(choices.clone());
                let flags = gt::flags(&mut c);
                let mut back = flags.clone();
                back.direction = opposite(flags.direction);
                let ab = ops::strong_problems(left, right, &flags, *mu);
                let ba = ops::strong_problems(right, left, &back, *mu);
                let d = format!(
                    "strong equivalence mu={mu}\n  A: {}\n  B: {}\n  flags: {}",
                    safe_print::asp_program(left, &Style::plain()),
                    safe_print::asp_program(right, &Style::plain()),
                    flags.describe()
                );
                (ab, ba, flags, d, left != right)
            }
            SwapCase::External { choices } => {
                let mut c = Chooser::new(choices.clone());
                let mut names = gt::Names::clean(&mut c);
                let p = |s: &str, a: usize| (s.to_string(), a);
                names.left_private = vec![p("a", 1), p("b", 1)];
                names.right_private = vec![p("c", 1), p("d", 1)];
                let task = gt::external_task_with(&mut c, names);
                let flags = gt::flags(&mut c);
                let Some(left) = task.left_program.clone() else {
                    return Outcome::skip("specification task (no second program to swap)");
                };
                let mut swapped = task.clone();
                swapped.left_program = Some(task.right.clone());
                swapped.right = left.clone();
                let mut back = flags.clone();
                back.direction = opposite(flags.direction);
                let ab = match ops::external_problems(&task, &ops::empty_outline(), &flags, false) {
                    Ok((p, _)) => p,
                    Err(_) => return Outcome::skip("task refused (reported by C09)"),
                };
                let ba = match ops::external_problems(&swapped, &ops::empty_outline(), &back, false) {
                    Ok((p, _)) => p,
                    Err((v, m)) => {
                        return Outcome::fail(
                            "swapped-task-refused",
                            format!("C20: the task is accepted but refused with the programs swapped ({v}): {m}\n{}", crate::checks::problems::describe_external(&task)),
                        );
                    }
                };
                let d = format!("{}\n  flags: {}", crate::checks::problems::describe_external(&task), flags.describe());
                (ab, ba, flags, d, left != task.right)
            }
        };
        for (x, y) in [("forward", "backward"), ("backward", "forward")] {
            let (fa, fb) = (family(&ab, x), family(&ba, y));
            if fa != fb {
                let only_a: Vec<_> = fa.iter().filter(|p| !fb.contains(p)).take(1).collect();
                let only_b: Vec<_> = fb.iter().filter(|p| !fa.contains(p)).take(1).collect();
                return Outcome::fail(
                    format!("swap-mismatch:{x}"),
                    format!(
                        "C20: the {x} problems of (A, B) are not the {y} problems of (B, A): {} vs {} problems\n  only in (A, B): {only_a:?}\n  only in (B, A): {only_b:?}\n{description}",
                        fa.len(),
                        fb.len()
                    ),
                );
            }
        }
        let wanted_f = matches!(flags.direction, fol::Direction::Universal | fol::Direction::Forward);
        let wanted_b = matches!(flags.direction, fol::Direction::Universal | fol::Direction::Backward);
        if (!wanted_f && ab.iter().any(|p| p.name.starts_with("forward"))) || (!wanted_b && ab.iter().any(|p| p.name.starts_with("backward"))) {
            return Outcome::fail("unrequested-direction", format!("C20: problems of a direction that was not requested\n{description}"));
        }
        Outcome::pass(differ && !ab.is_empty(), hash64(&description))
            .readable(description.clone())
            .label(match case {
                SwapCase::Strong { .. } => "strong",
                SwapCase::External { .. } => "external",
            })
            .label(format!("direction={:?}", flags.direction))
    }
    fn describe(&self, case: &SwapCase) -> Value {
        match case {
            SwapCase::Strong { left, right, mu, choices } => json!({
                "kind": "strong",
                "left": safe_print::asp_program(left, &Style::plain()),
                "right": safe_print::asp_program(right, &Style::plain()),
                "mu": mu, "choices": choices,
            }),
            SwapCase::External { choices } => json!({"kind": "external", "choices": choices}),
        }
    }
    fn from_replay(&self, j: &Value) -> Option<SwapCase> {
        let choices: Vec<u16> = j["choices"].as_array()?.iter().map(|x| x.as_u64().unwrap() as u16).collect();
        match j["kind"].as_str()? {
            "strong" => Some(SwapCase::Strong {
                left: j["left"].as_str()?.parse().ok()?,
                right: j["right"].as_str()?.parse().ok()?,
                mu: j["mu"].as_bool()?,
                choices,
            }),
            "external" => Some(SwapCase::External { choices }),
            _ => None,
        }
    }
}
