//! C10 — success is reported iff every problem is proven, under any prover schedule / fault.
use crate::checks::c01;
use crate::cli;
use crate::generators::asp as ga;
use crate::generators::task::{self as gt, Chooser};
use crate::runner::{Check, Outcome, Tier, hash64};
use crate::safe_print::{self, Style};
use crate::stub;
use anthem::syntax_tree::asp::mini_gringo as asp;
use proptest::prelude::*;
use serde_json::{Value, json};
use std::collections::BTreeMap;
use std::time::Duration;

#[derive(Clone, Debug)]
pub struct Case {
    pub left: asp::Program,
    pub right: asp::Program,
    pub flags: Vec<&'static str>,
    pub plan: Vec<u16>,
    pub instances: u8,
    /// 0 normal, 1 prover executable missing, 2 prover exits without reading its input
    pub mode: u8,
    /// Some(choices): an external-equivalence task (program or specification, user guide, proof
    /// outline with a lemma and an inductive lemma) instead of the strong-equivalence pair
    pub external: Option<Vec<u16>>,
}

pub struct C10;

const FLAGS: [&str; 4] = ["--no-simplify", "--no-eq-break", "--decomposition=independent", "--formula-representation=mu"];

fn status_word(outcome: &str) -> Option<&'static str> {
    Some(match outcome {
        "Theorem" | "TheoremNonZeroExit" | "TheoremAfterLongOutput" | "TheoremThenKilledBySignal" => "Theorem",
        "TimeoutAfterLongOutput" => "Timeout",
        "CounterSatisfiable" => "CounterSatisfiable",
        "ContradictoryAxioms" => "ContradictoryAxioms",
        "Timeout" => "Timeout",
        "MemoryOut" => "MemoryOut",
        "GaveUp" => "GaveUp",
        "Error" => "Error",
        _ => return None,
    })
}

impl Check for C10 {
    type Case = Case;
    fn name(&self) -> &'static str {
        "prover-aggregation"
    }
    fn shards(&self) -> usize {
        8
    }
    fn shrink_steps(&self) -> usize {
        120
    }
    fn cases(&self, tier: Tier) -> usize {
        tier.pick(700, 12_000)
    }
    fn strategy(&self, _tier: Tier) -> BoxedStrategy<Case> {
        let c = c01::cfg();
        (
            ga::shaped_program(&c, 0),
            ga::shaped_program(&c, 0),
            prop::sample::subsequence(FLAGS.to_vec(), 0..=4),
            gt::choices(40),
            0u8..=8,
            prop_oneof![10 => Just(0u8), 1 => Just(1u8), 1 => Just(2u8)],
            prop_oneof![2 => Just(None), 1 => gt::choices(180).prop_map(Some)],
        )
            .prop_map(|(left, right, flags, plan, instances, mode, external)| Case {
                left,
                right,
                flags,
                plan,
                instances,
                mode,
                external,
            })
            .boxed()
    }
    fn rule(&self) -> String {
        "a strong-equivalence task over two random programs, or (1 in 3) an external-equivalence task (program or specification, user guide, 2 in 3 with a proof outline of lemmas and an inductive lemma), 1-20 problems, is first run with --no-proof-search --save-problems; then `verify` runs with a stand-in `vampire` first in PATH that stores its stdin and answers by plan (keyed by the SHA-256 of the problem text): each problem gets one of {Theorem, Theorem or Timeout after 8 KB of other output, GaveUp followed by Theorem in one run (counts as not proven: a status other than Theorem was printed), CounterSatisfiable, ContradictoryAxioms, Timeout, MemoryOut, GaveUp, Error, unknown status word, no status line, non-UTF-8 output, Theorem with non-zero exit, Theorem and then killed by a signal, no status with non-zero exit, no status on stdout but a status-like line on stderr, killed by signal} and a delay of 0-40 ms, with 1-8 (or auto) prover instances and 1-3 (or auto, or default) cores per prover; half of the plans have zero or exactly one non-Theorem outcome at a generated position; plus runs with the executable missing and with a prover that exits without reading; oracle: every stored stdin is byte-identical to a saved file and the multisets agree (each problem handed over exactly once), the files saved by both runs agree (also when the second directory already holds files of the same names that are longer, or as long with another content), problem names are distinct, stdout says Success iff every planned outcome prints SZS status Theorem, otherwise Failure, every named status line matches the plan, exit status 0; non-trivial = at least 2 problems and at least 2 instances with zero or one non-Theorem outcome; distinct by problems + plan + instances".into()
    }
    fn run(&self, case: &Case) -> Outcome {
        let Some(bin) = cli::anthem_bin() else {
            return Outcome::skip("ANTHEM_BIN not set");
        };
        let engine = std::env::current_exe().expect("own path");
        let dir = cli::scratch_dir("c10");
        let cleanup = |o: Outcome| {
            let _ = std::fs::remove_dir_all(&dir);
            o
        };
        let pa = dir.join("a.lp");
        let pb = dir.join("b.lp");
        let mut inputs: Vec<String> = vec![];
        let mut task_text = String::new();
        match &case.external {
            None => {
                std::fs::write(&pa, safe_print::asp_program(&case.left, &Style::plain())).unwrap();
                std::fs::write(&pb, safe_print::asp_program(&case.right, &Style::plain())).unwrap();
                inputs.push(pa.to_string_lossy().to_string());
                inputs.push(pb.to_string_lossy().to_string());
            }
            Some(choices) => {
                let mut c = Chooser::new(choices.clone());
                let names = gt::Names::clean(&mut c);
                let task = gt::external_task_with(&mut c, names);
                match (&task.left_program, &task.left_spec) {
                    (Some(p), _) => {
                        std::fs::write(&pa, safe_print::asp_program(p, &Style::plain())).unwrap();
                        inputs.push(pa.to_string_lossy().to_string());
                    }
                    (_, Some(sp)) => {
                        let f = dir.join("s.spec");
                        std::fs::write(&f, safe_print::specification(sp, &Style::plain())).unwrap();
                        inputs.push(f.to_string_lossy().to_string());
                    }
                    _ => {}
                }
                std::fs::write(&pb, safe_print::asp_program(&task.right, &Style::plain())).unwrap();
                inputs.push(pb.to_string_lossy().to_string());
                let ug = dir.join("u.ug");
                std::fs::write(&ug, safe_print::user_guide(&task.user_guide, &Style::plain())).unwrap();
                inputs.push(ug.to_string_lossy().to_string());
                if c.flag(2, 3) {
                    let i = &task.names.inputs[0].0;
                    let po = dir.join("o.po");
                    // an inductive lemma (two problems: base and step) stands first, in the middle or last
                    let lemmas = [
                        format!("lemma(forward)[l1]: forall X ({i}(X) -> {i}(X)).\n"),
                        format!("lemma: exists X ({i}(X)) or not exists X ({i}(X)).\n"),
                    ];
                    let mut entries: Vec<String> = lemmas.to_vec();
                    if c.flag(1, 2) {
                        let direction = ["", "(backward)", "(forward)"][c.aux(21, 3)];
                        let il = format!("inductive-lemma{direction}[il]: forall N$i (N$i >= 0 -> ({i}(N$i) or not {i}(N$i))).\n");
                        entries.insert(c.aux(22, 3), il);
                    }
                    let mut text: String = entries.concat();
                    std::fs::write(&po, &text).unwrap();
                    inputs.push(po.to_string_lossy().to_string());
                    task_text.push_str(&format!("\n  proof outline: {text}"));
                }
                task_text = format!("{}{task_text}", crate::checks::problems::describe_external(&task));
            }
        }
        let equivalence = if case.external.is_some() { "external" } else { "strong" };
        let saved = dir.join("saved");
        let saved2 = dir.join("saved2");
        let stubdir = dir.join("stub");
        let bindir = dir.join("bin");
        for d in [&saved, &saved2, &stubdir, &bindir] {
            std::fs::create_dir_all(d).unwrap();
        }
        let base_args = |out: &std::path::Path| -> Vec<String> {
            let mut a: Vec<String> = vec!["verify".into(), "--equivalence".into(), equivalence.into(), "--save-problems".into(), out.to_string_lossy().to_string()];
            a.extend(case.flags.iter().filter(|f| !(case.external.is_some() && f.contains("formula-representation"))).map(|s| s.to_string()));
            a.extend(inputs.iter().cloned());
            a
        };
        let mut first = base_args(&saved);
        first.insert(1, "--no-proof-search".into());
        let argv: Vec<&str> = first.iter().map(|s| s.as_str()).collect();
        let r = cli::run(&bin, &argv, None);
        if r.code != Some(0) {
            return cleanup(Outcome::skip("problem generation failed (reported by C16)"));
        }
        let files = cli::snapshot_dir(&saved);
        if files.is_empty() {
            // a claim without obligations: the proof search has nothing to do and must say so quietly
            let mut args = base_args(&saved2);
            args.push("-n".into());
            args.push(case.instances.to_string());
            let argv: Vec<&str> = args.iter().map(|s| s.as_str()).collect();
            let r = cli::run_env(&bin, &argv, None, &[("PATH", "/usr/bin:/bin".to_string())], Duration::from_secs(120));
            if r.timed_out || r.code != Some(0) || !r.stdout.contains("> Success!") {
                return cleanup(Outcome::fail(
                    "no-problems-run",
                    format!("C10: a task without problems: verify exited with {:?} (signal {:?}), stdout {:?}, stderr {}\n  instances: {}", r.code, r.signal, tail(&r.stdout), tail(&r.stderr), case.instances),
                ));
            }
            return cleanup(Outcome::pass(false, hash64("no problems")).label("problems=0"));
        }
        // plan
        let mut c = Chooser::new(case.plan.clone());
        let all_theorem_but_at_most_one = c.flag(1, 2);
        let bad_index = if c.flag(1, 2) { Some(c.next(files.len())) } else { None };
        let mut plan: BTreeMap<String, (String, u64)> = BTreeMap::new();
        let mut by_name: BTreeMap<String, String> = BTreeMap::new();
        for (i, (name, content)) in files.iter().enumerate() {
            let h = stub::sha(content.as_bytes());
            let outcome = if all_theorem_but_at_most_one {
                if Some(i) == bad_index { stub::OUTCOMES[1 + c.next(12)] } else { "Theorem" }
            } else {
                stub::OUTCOMES[c.next(13)]
            };
            // one outcome in six is preceded by some 8 KB of output (failed strategies of a portfolio prover)
            let outcome = if c.aux(40 + i as u64, 4) == 0 {
                match outcome {
                    "Theorem" => "TheoremAfterLongOutput",
                    "Timeout" | "MemoryOut" => "TimeoutAfterLongOutput",
                    "GaveUp" | "CounterSatisfiable" | "ContradictoryAxioms" | "Error" | "UnknownWord" | "NoStatus" => "GaveUpThenTheorem",
                    o => o,
                }
            } else {
                outcome
            };
            // no status on stdout: half of the time with a status-like line on stderr
            let outcome = if outcome == "NoStatus" && c.aux(61 + i as u64, 2) == 0 { "NoStatusStderrTheorem" } else { outcome };
            // a prover that printed its status and did not exit normally: half of the time it died from a signal
            let outcome = if outcome == "TheoremNonZeroExit" && c.aux(60 + i as u64, 2) == 0 { "TheoremThenKilledBySignal" } else { outcome };
            let delay = c.next(41) as u64;
            // identical texts share a plan entry: the first assignment wins
            let e = plan.entry(h.clone()).or_insert((outcome.to_string(), delay));
            by_name.insert(name.trim_end_matches(".p").to_string(), e.0.clone());
        }
        let plan_json = json!({
            "problems": plan.iter().map(|(h, (o, d))| (h.clone(), json!({"outcome": o, "delay_ms": d}))).collect::<serde_json::Map<_, _>>(),
            "exit_without_reading_all": case.mode == 2,
        });
        std::fs::write(stubdir.join("plan.json"), plan_json.to_string()).unwrap();
        if case.mode != 1 {
            std::os::unix::fs::symlink(&engine, bindir.join("vampire")).unwrap();
        }
        let path = if case.mode == 1 {
            // a PATH without any vampire
            bindir.to_string_lossy().to_string()
        } else {
            format!("{}:/usr/bin:/bin", bindir.to_string_lossy())
        };
        // the second output directory is not empty: it holds longer files under the names about to be
        // written (a directory re-used from an earlier run); they must be replaced, not overwritten in place
        if c.flag(1, 2) {
            for (name, content) in &files {
                // longer than the new file, or exactly as long with another content
                let stale = if c.aux(23, 2) == 0 {
                    format!("{content}% left over from an earlier run\n{}", "%".repeat(content.len() / 2))
                } else {
                    content.replace("tff(", "tgg(").replace('0', "7")
                };
                std::fs::write(saved2.join(name), stale).unwrap();
            }
        }
        let mut second = base_args(&saved2);
        second.push("-n".into());
        second.push(case.instances.to_string());
        // the cores each prover may use: the default (option absent), automatic (0), or 1-3; together with
        // `-n 0` both numbers are derived from the machine
        let cores = Chooser::new(case.plan.clone()).aux(62, 5);
        if cores < 4 {
            second.push("-m".into());
            second.push(cores.to_string());
        }
        second.push("--time-limit".into());
        second.push("5".into());
        let argv: Vec<&str> = second.iter().map(|s| s.as_str()).collect();
        let r = cli::run_env(
            &bin,
            &argv,
            None,
            &[("PATH", path), ("STUB_DIR", stubdir.to_string_lossy().to_string())],
            Duration::from_secs(120),
        );
        let description = format!(
            "{}\n  flags: {:?} instances: {} mode: {}\n  plan: {:?}",
            if case.external.is_some() {
                task_text.clone()
            } else {
                format!("left: {}\n  right: {}", safe_print::asp_program(&case.left, &Style::plain()), safe_print::asp_program(&case.right, &Style::plain()))
            },
            case.flags,
            case.instances,
            case.mode,
            by_name
        );
        if r.timed_out {
            return cleanup(Outcome::fail("hang", format!("C10: verify did not finish within 120 s\n  {description}")));
        }
        if r.code != Some(0) {
            return cleanup(Outcome::fail(
                "exit-status",
                format!("C10: verify exited with {:?} (signal {:?})\n  stderr: {}\n  {description}", r.code, r.signal, r.stderr),
            ));
        }
        let files2 = cli::snapshot_dir(&saved2);
        if files2 != files {
            return cleanup(Outcome::fail("saved-files-differ", format!("C10: the problem files written with and without proof search differ\n  {description}")));
        }
        let success = r.stdout.contains("> Success!");
        let failure = r.stdout.contains("> Failure!");
        if success == failure {
            return cleanup(Outcome::fail("no-verdict", format!("C10: stdout has neither or both of Success/Failure\n  stdout: {}\n  {description}", r.stdout)));
        }
        let expected_success = case.mode == 0 && by_name.values().all(|o| stub::prints_theorem(o));
        if success != expected_success {
            return cleanup(Outcome::fail(
                if success { "success-without-all-theorems" } else { "failure-with-all-theorems" },
                format!("C10: verify reported {} but the plan has {}\n  {description}\n  stdout tail: {}", if success { "Success" } else { "Failure" }, if expected_success { "only Theorem outcomes" } else { "a non-Theorem outcome or a prover fault" }, tail(&r.stdout)),
            ));
        }
        if case.mode == 0 {
            // exactly-once, byte-identical hand-over
            let mut received: Vec<String> = std::fs::read_dir(&stubdir)
                .unwrap()
                .flatten()
                .filter(|e| e.file_name().to_string_lossy().starts_with("recv-"))
                .map(|e| String::from_utf8_lossy(&std::fs::read(e.path()).unwrap_or_default()).to_string())
                .collect();
            received.sort();
            let mut written: Vec<String> = files.iter().map(|f| f.1.clone()).collect();
            written.sort();
            if received != written {
                return cleanup(Outcome::fail(
                    "handover-mismatch",
                    format!("C10: the prover received {} inputs, {} problems were written, and the multisets of texts differ\n  {description}", received.len(), written.len()),
                ));
            }
            // per-problem status lines
            for (name, outcome) in &by_name {
                if outcome == "GaveUpThenTheorem" {
                    // which of the two status lines is shown is not prescribed; only the verdict is checked
                    continue;
                }
                let marker_ok = format!("> Proving {name} ended with a SZS status");
                let marker_no = format!("> Proving {name} ended without a SZS status");
                match status_word(outcome) {
                    Some(word) => {
                        let Some(pos) = r.stdout.find(&marker_ok) else {
                            return cleanup(Outcome::fail("status-line-missing", format!("C10: no status report for {name} (planned {outcome})\n  {description}\n  stdout tail: {}", tail(&r.stdout))));
                        };
                        let rest = &r.stdout[pos..];
                        let line = rest.lines().nth(1).unwrap_or("");
                        if !line.starts_with(&format!("Status: {word}")) {
                            return cleanup(Outcome::fail("status-line-wrong", format!("C10: {name} planned {outcome} but reported {line:?}\n  {description}")));
                        }
                    }
                    None => {
                        if r.stdout.contains(&marker_ok) && outcome != "NonUtf8" {
                            return cleanup(Outcome::fail("status-line-wrong", format!("C10: {name} planned {outcome} (no valid status) but a status was reported\n  {description}")));
                        }
                        let _ = marker_no;
                    }
                }
            }
        }
        let nontheorem = by_name.values().filter(|o| !stub::prints_theorem(o)).count();
        let nontrivial = files.len() >= 2 && case.instances != 1 && nontheorem <= 1 && case.mode == 0;
        let key = hash64(&format!("{description}"));
        cleanup(
            Outcome::pass(nontrivial, key)
                .readable(description.clone())
                .label(format!("problems={}", files.len().min(12)))
                .label(format!("instances={}", case.instances))
                .label(format!("mode={}", case.mode))
                .label(format!("task={equivalence}"))
                .label(format!("non-theorem={}", nontheorem.min(3)))
                .label(format!("reported={}", if success { "success" } else { "failure" })),
        )
    }
    fn describe(&self, case: &Case) -> Value {
        json!({
            "left": safe_print::asp_program(&case.left, &Style::plain()),
            "right": safe_print::asp_program(&case.right, &Style::plain()),
            "flags": case.flags, "plan": case.plan, "instances": case.instances, "mode": case.mode,
            "external": case.external,
        })
    }
    fn from_replay(&self, j: &Value) -> Option<Case> {
        Some(Case {
            left: j["left"].as_str()?.parse().ok()?,
            right: j["right"].as_str()?.parse().ok()?,
            flags: j["flags"].as_array()?.iter().filter_map(|x| FLAGS.iter().find(|a| Some(**a) == x.as_str()).copied()).collect(),
            plan: j["plan"].as_array()?.iter().map(|x| x.as_u64().unwrap() as u16).collect(),
            instances: j["instances"].as_u64()? as u8,
            mode: j["mode"].as_u64()? as u8,
            external: j.get("external").and_then(|e| e.as_array()).map(|a| a.iter().map(|x| x.as_u64().unwrap() as u16).collect()),
        })
    }
}

fn tail(s: &str) -> String {
    let lines: Vec<&str> = s.lines().collect();
    lines[lines.len().saturating_sub(12)..].join("\n")
}
