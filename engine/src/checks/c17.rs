//! C17 — substitution never captures.
use crate::dom::Val;
use crate::eval::{Env, Ev, World};
use crate::generators::fol::{self as g, FolCfg, RawInterp};
use crate::ir::{self, VarId};
use crate::runner::{Check, Outcome, Tier, hash64};
use crate::safe_print::{self, Style};
use anthem::syntax_tree::fol::sigma_0 as fol;
use proptest::collection::vec;
use proptest::prelude::*;
use serde_json::{Value, json};
use std::collections::BTreeSet;

#[derive(Clone, Debug)]
pub struct Case {
    pub f: fol::Formula,
    pub var: fol::Variable,
    pub term: fol::GeneralTerm,
    pub raw: RawInterp,
    pub envc: Vec<u16>,
}

pub struct C17;

fn cfg() -> FolCfg {
    FolCfg {
        preds: vec![("p".into(), 1), ("q".into(), 2), ("r".into(), 3), ("s".into(), 0)],
        gvars: vec!["X".into(), "X1".into(), "X2".into(), "Y".into()],
        ivars: vec!["X".into(), "X1".into(), "X2".into(), "N".into()],
        svars: vec!["X".into(), "S".into()],
        syms: vec!["a".into(), "b".into()],
        fcs: vec![("c".into(), crate::dom::Sort::G), ("n".into(), crate::dom::Sort::I)],
        num_lo: -1,
        num_hi: 2,
        depth: 4,
        max_guards: 2,
        term_depth: 2,
    }
}

fn term_for(sort: fol::Sort, cfg: &FolCfg) -> BoxedStrategy<fol::GeneralTerm> {
    match sort {
        fol::Sort::General => g::gen_term(cfg),
        fol::Sort::Integer => g::int_term(cfg)
            .prop_map(fol::GeneralTerm::IntegerTerm)
            .boxed(),
        fol::Sort::Symbol => g::sym_term(cfg)
            .prop_map(fol::GeneralTerm::SymbolicTerm)
            .boxed(),
    }
}

/// directed: a block of binders P, P1, P2 (same sort) around atoms that mention the substituted
/// variable, with a term that mentions the binders and the fresh-name candidates
/// the substitutions of an induction step: an integer variable N replaced by a term over N itself
/// (N + 1, N - 1, 2 * N, -N) in a formula whose atoms also mention such terms (`q(N, N + 1)`)
fn successor_case(cfg: &FolCfg) -> BoxedStrategy<(fol::Formula, fol::Variable, fol::GeneralTerm)> {
    fn it(k: u8, v: &str) -> fol::IntegerTerm {
        let var = fol::IntegerTerm::Variable(v.to_string());
        let bin = |op, l, r| fol::IntegerTerm::BinaryOperation { op, lhs: Box::new(l), rhs: Box::new(r) };
        match k % 5 {
            0 => var,
            1 => bin(fol::BinaryOperator::Add, var, fol::IntegerTerm::Numeral(1)),
            2 => bin(fol::BinaryOperator::Subtract, var, fol::IntegerTerm::Numeral(1)),
            3 => bin(fol::BinaryOperator::Multiply, fol::IntegerTerm::Numeral(2), var),
            _ => fol::IntegerTerm::UnaryOperation { op: fol::UnaryOperator::Negative, arg: Box::new(var) },
        }
    }
    (1u8..5, proptest::collection::vec(any::<u8>(), 6), g::formula(cfg), any::<bool>())
        .prop_map(|(tk, ks, other, wrap)| {
            let gt = |k: u8| fol::GeneralTerm::IntegerTerm(it(k, "N"));
            let atom = |p: &str, args: Vec<fol::GeneralTerm>| {
                fol::Formula::AtomicFormula(fol::AtomicFormula::Atom(fol::Atom { predicate_symbol: p.to_string(), terms: args }))
            };
            let a = atom("q", vec![gt(ks[0]), gt(ks[1])]);
            let b = atom("r", vec![gt(ks[2]), gt(ks[3]), gt(ks[4])]);
            let mut f = g::bin(if ks[5] % 2 == 0 { fol::BinaryConnective::Implication } else { fol::BinaryConnective::Conjunction }, a, b);
            if wrap {
                f = g::bin(fol::BinaryConnective::Disjunction, f, other);
            }
            (f, fol::Variable { name: "N".into(), sort: fol::Sort::Integer }, gt(tk))
        })
        .boxed()
}

fn directed_case(cfg: &FolCfg) -> BoxedStrategy<(fol::Formula, fol::Variable, fol::GeneralTerm)> {
    let cfg = cfg.clone();
    (
        any::<bool>(),
        prop::sample::subsequence(vec!["X", "X1", "X2"], 1..=3),
        prop_oneof![
            prop::sample::subsequence(vec!["X", "X1", "X2", "X3", "X4"], 1..=5)
                .prop_map(|v| v.into_iter().map(String::from).collect::<Vec<String>>()),
            // a contiguous run X, X1, ..., Xk: exhausts the fresh-name candidates X1..Xk
            (1usize..=15).prop_map(|k| (0..k)
                .map(|i| if i == 0 { "X".to_string() } else { format!("X{i}") })
                .collect::<Vec<String>>()),
        ],
        any::<bool>(),
        g::formula(&FolCfg { depth: 2, ..cfg.clone() }),
        any::<bool>(),
    )
        .prop_map(move |(integer, binders, tvars, forall, inner, shuffle)| {
            let sort = if integer { fol::Sort::Integer } else { fol::Sort::General };
            let mk = |n: &str| -> fol::GeneralTerm {
                if integer {
                    fol::GeneralTerm::IntegerTerm(fol::IntegerTerm::Variable(n.into()))
                } else {
                    fol::GeneralTerm::Variable(n.into())
                }
            };
            let z = fol::Variable { name: "Z".into(), sort };
            let mut args: Vec<fol::GeneralTerm> = binders.iter().map(|b| mk(b)).collect();
            args.push(mk("Z"));
            if shuffle {
                args.reverse();
            }
            args.truncate(3);
            while args.len() < 3 {
                args.push(mk("Z"));
            }
            let atom = fol::Formula::AtomicFormula(fol::AtomicFormula::Atom(fol::Atom {
                predicate_symbol: "r".into(),
                terms: args,
            }));
            let body = g::bin(fol::BinaryConnective::Conjunction, atom, inner);
            let f = g::quant(
                forall,
                binders
                    .iter()
                    .map(|b| fol::Variable { name: b.to_string(), sort })
                    .collect(),
                body,
            );
            let term = if integer {
                let mut it = fol::IntegerTerm::Variable(tvars[0].clone());
                for v in &tvars[1..] {
                    it = fol::IntegerTerm::BinaryOperation {
                        op: fol::BinaryOperator::Add,
                        lhs: Box::new(it),
                        rhs: Box::new(fol::IntegerTerm::Variable(v.to_string())),
                    };
                }
                fol::GeneralTerm::IntegerTerm(it)
            } else {
                fol::GeneralTerm::Variable(tvars[0].clone())
            };
            (f, z, term)
        })
        .boxed()
}

impl Check for C17 {
    type Case = Case;
    fn name(&self) -> &'static str {
        "substitute"
    }
    fn cases(&self, tier: Tier) -> usize {
        tier.pick(1_000_000, 20_000_000)
    }
    fn strategy(&self, _tier: Tier) -> BoxedStrategy<Case> {
        let c = cfg();
        let c2 = c.clone();
        let random = (g::formula(&c), g::variable(&c))
            .prop_flat_map(move |(f, var)| {
                let t = term_for(var.sort, &c2);
                (Just(f), Just(var), t)
            })
            .boxed();
        let triple = prop_oneof![6 => random, 2 => directed_case(&c), 1 => successor_case(&c)];
        (triple, g::raw_interp(c.preds.len(), c.fcs.len(), 3, 5), vec(any::<u16>(), 8))
            .prop_map(|((f, var, term), raw, envc)| Case { f, var, term, raw, envc })
            .boxed()
    }
    fn rule(&self) -> String {
        "random formula x variable x sort-compatible term (mixed with directed blocks of binders X,X1,X2 against terms over X..X4, and with induction-step substitutions N := N+1 / N-1 / 2*N / -N into atoms over such terms) x random interpretation and assignment; non-trivial = the variable occurs free below a quantifier that binds a variable of the term (a renaming is required); distinct by formula/variable/term text".into()
    }
    fn run(&self, case: &Case) -> Outcome {
        let c = cfg();
        let before = ir::lower(&case.f);
        let x: VarId = ir::var_of(&case.var);
        let t_ir = ir::lower_tm(&case.term);
        let mut tvars = BTreeSet::new();
        t_ir.vars(&mut tvars);
        let result = case.f.clone().substitute(case.var.clone(), case.term.clone());
        let after = ir::lower(&result);

        // free variables
        let fv_before = before.free_vars();
        let mut expected = fv_before.clone();
        expected.remove(&x);
        if fv_before.contains(&x) {
            expected.extend(tvars.iter().cloned());
        }
        let fv_after = after.free_vars();
        let text = format!(
            "{} [{} := {}]",
            safe_print::formula(&case.f, &Style::plain()),
            safe_print::variable(&case.var, &Style::plain()),
            safe_print::gen_term(&case.term, &Style::plain())
        );
        let needs = needs_renaming(&before, &x, &tvars, false);
        let key = hash64(&text);
        if fv_after != expected {
            return Outcome::fail(
                "free-variables",
                format!(
                    "C17: free variables of the result are {:?}, expected {:?}\n  {}\n  result: {}",
                    fv_after, expected, text, result
                ),
            );
        }

        // semantics
        let (sig, _) = g::signature_of(&[&case.f]);
        let mut sig = sig;
        sig.term(&t_ir);
        let pool = g::value_pool(&sig, &["zz"]);
        let fcs: Vec<VarId> = c.fcs.iter().cloned().collect();
        let (_, interp) = g::build_interp(&case.raw, &c.preds, &fcs, &pool);
        let mut all_free = fv_before.clone();
        all_free.extend(tvars.iter().cloned());
        all_free.extend(fv_after.iter().cloned());
        let envp = g::build_env(&all_free, &case.envc, &pool);
        // distinct values for same-name variables of other sorts are likely because choices differ
        let ev = Ev::classical(&interp, &pool, false);
        let env0 = Env::from_pairs(&envp);
        let Ok(tv) = ev.tm(&t_ir, &env0) else {
            return Outcome::skip("term value overflow");
        };
        let mut env_after = Env::from_pairs(&envp);
        let lhs = ev.sat(&after, &mut env_after, World::T);
        let mut pairs2: Vec<(VarId, Val)> = envp.iter().filter(|(k, _)| *k != x).cloned().collect();
        pairs2.push((x.clone(), tv));
        let mut env_before = Env::from_pairs(&pairs2);
        let rhs = ev.sat(&before, &mut env_before, World::T);
        match (lhs, rhs) {
            (Some(a), Some(b)) if a != b => Outcome::fail(
                "semantic-mismatch",
                format!(
                    "C17: substitution changed the meaning\n  {}\n  result: {}\n  value of result: {}, value of original with the variable set to the term's value: {}\n  interpretation: {}\n  assignment: {:?}",
                    text, result, a, b, interp.json(), envp
                ),
            ),
            (Some(_), Some(_)) => Outcome::pass(needs > 0, key)
                .label(format!("renamings_needed={}", needs.min(3)))
                .label(format!("sort={:?}", case.var.sort)),
            _ => Outcome::skip("evaluation budget"),
        }
    }
    fn describe(&self, case: &Case) -> Value {
        json!({
            "formula": safe_print::formula(&case.f, &Style::plain()),
            "variable": safe_print::variable(&case.var, &Style::plain()),
            "term": safe_print::gen_term(&case.term, &Style::plain()),
            "raw": raw_json(&case.raw),
            "envc": case.envc,
        })
    }
    fn from_replay(&self, j: &Value) -> Option<Case> {
        Some(Case {
            f: j["formula"].as_str()?.parse().ok()?,
            var: j["variable"].as_str()?.parse().ok()?,
            term: j["term"].as_str()?.parse().ok()?,
            raw: raw_from_json(&j["raw"])?,
            envc: j["envc"].as_array()?.iter().map(|x| x.as_u64().unwrap() as u16).collect(),
        })
    }
}

/// number of binders, in blocks below which x occurs free, that bind a variable of the term
fn needs_renaming(f: &ir::Fm, x: &VarId, tvars: &BTreeSet<VarId>, _under: bool) -> usize {
    match f {
        ir::Fm::Not(g) => needs_renaming(g, x, tvars, false),
        ir::Fm::Bin(_, a, b) => needs_renaming(a, x, tvars, false) + needs_renaming(b, x, tvars, false),
        ir::Fm::Q(_, vs, g) => {
            if vs.contains(x) || !g.free_vars().contains(x) {
                0
            } else {
                vs.iter().filter(|v| tvars.contains(*v)).count() + needs_renaming(g, x, tvars, true)
            }
        }
        _ => 0,
    }
}

pub fn raw_json(r: &RawInterp) -> Value {
    json!({"tuples": r.tuples, "fcs": r.fcs, "in_h": r.in_h})
}

pub fn raw_from_json(j: &Value) -> Option<RawInterp> {
    Some(RawInterp {
        tuples: serde_json::from_value(j.get("tuples")?.clone()).ok()?,
        fcs: serde_json::from_value(j.get("fcs")?.clone()).ok()?,
        in_h: serde_json::from_value(j.get("in_h")?.clone()).ok()?,
    })
}
