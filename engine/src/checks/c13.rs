//! C13 — a proof outline cannot make an unjustified claim available as an axiom.
use crate::checks::problems::describe_external;
use crate::dom::Sort;
use crate::eval::{Env, Ev, World};
use crate::generators::fol::{self as g};
use crate::generators::task::{self as gt, Chooser, ExternalTask, Flags};
use crate::ir::{self, Conn, Fm, IT, Op, Rel, Tm};
use crate::ops;
use crate::runner::{Check, Outcome, Tier, hash64};
use crate::safe_print::{self, Style};
use anthem::syntax_tree::fol::sigma_0 as fol;
use anthem::verif::ProblemData;
use proptest::prelude::*;
use serde_json::{Value, json};
use std::collections::BTreeMap;

#[derive(Clone, Debug)]
pub struct Case {
    pub task: Vec<u16>,
    pub outline: Vec<u16>,
    /// 0 = valid outline; otherwise inject the defect with this number into one definition
    pub defect: u8,
    pub interp: Vec<u16>,
}

pub struct C13;

fn v(name: &str, sort: fol::Sort) -> fol::Variable {
    fol::Variable { name: name.into(), sort }
}
fn gv(name: &str) -> fol::GeneralTerm {
    fol::GeneralTerm::Variable(name.into())
}
fn iv(name: &str) -> fol::GeneralTerm {
    fol::GeneralTerm::IntegerTerm(fol::IntegerTerm::Variable(name.into()))
}
fn num(n: isize) -> fol::GeneralTerm {
    fol::GeneralTerm::IntegerTerm(fol::IntegerTerm::Numeral(n))
}
fn atom(p: &str, args: Vec<fol::GeneralTerm>) -> fol::Formula {
    fol::Formula::AtomicFormula(fol::AtomicFormula::Atom(fol::Atom {
        predicate_symbol: p.into(),
        terms: args,
    }))
}
fn cmp(l: fol::GeneralTerm, r: fol::Relation, rhs: fol::GeneralTerm) -> fol::Formula {
    g::cmp(l, vec![(r, rhs)])
}

#[derive(Clone, Debug)]
pub struct Entry {
    pub formula: fol::AnnotatedFormula,
    pub kind: &'static str, // definition | lemma | inductive
    pub defined: Option<String>,
}

const RELS: [fol::Relation; 4] = [
    fol::Relation::LessEqual,
    fol::Relation::Greater,
    fol::Relation::Equal,
    fol::Relation::NotEqual,
];

/// a condition on the term `x` over the given unary predicates
fn condition(c: &mut Chooser, preds: &[String], x: fol::GeneralTerm) -> fol::Formula {
    let mut parts = vec![];
    for _ in 0..1 + c.next(2) {
        let f = match c.next(4) {
            0 => g::not(atom(c.pick::<String>(preds), vec![x.clone()])),
            1 => cmp(x.clone(), *c.pick(&RELS), num(c.next(4) as isize)),
            _ => atom(c.pick::<String>(preds), vec![x.clone()]),
        };
        parts.push(f);
    }
    let conj = c.flag(2, 3);
    parts
        .into_iter()
        .reduce(|a, b| g::bin(if conj { fol::BinaryConnective::Conjunction } else { fol::BinaryConnective::Disjunction }, a, b))
        .unwrap()
}

fn direction(c: &mut Chooser) -> fol::Direction {
    match c.next(4) {
        0 => fol::Direction::Forward,
        1 => fol::Direction::Backward,
        _ => fol::Direction::Universal,
    }
}

pub fn outline(c: &mut Chooser, task: &ExternalTask) -> Vec<Entry> {
    let mut known: Vec<String> = task
        .names
        .inputs
        .iter()
        .chain(task.names.outputs.iter())
        .filter(|p| p.1 == 1)
        .map(|p| p.0.clone())
        .collect();
    let mut entries = vec![];
    let n = 1 + c.next(4);
    for i in 0..n {
        match c.next(4) {
            0 => {
                let name = format!("d{i}");
                let mut body = condition(c, &known, gv("X"));
                // one definition in three is relative to an integer placeholder of the user guide (`.. and X <= n`)
                if c.data.len() > 80 && c.aux(43 + i as u64, 3) == 0 {
                    if let Some((n, _)) = task.names.placeholders.iter().find(|p| p.1 == fol::Sort::Integer) {
                        let ph = fol::GeneralTerm::SymbolicTerm(fol::SymbolicTerm::Symbol(n.clone()));
                        let bound = if c.aux(44 + i as u64, 2) == 0 { cmp(gv("X"), fol::Relation::LessEqual, ph) } else { cmp(ph, fol::Relation::Greater, gv("X")) };
                        body = g::bin(fol::BinaryConnective::Conjunction, body, bound);
                    }
                }
                let f = g::quant(true, vec![v("X", fol::Sort::General)], g::bin(fol::BinaryConnective::Equivalence, atom(&name, vec![gv("X")]), body));
                entries.push(Entry {
                    formula: gt::annotated(fol::Role::Definition, direction(c), &format!("def{i}"), f),
                    kind: "definition",
                    defined: Some(name.clone()),
                });
                known.push(name);
            }
            1 => {
                // inductive lemma: N >= n -> F(N); N occurs several times, possibly re-bound inside F
                let lower = c.next(4) as isize - 1;
                let p = c.pick(&known).clone();
                // the core of the lemma: `p(N) -> N >= n` (true under the guard), the contingent `p(N) -> q(N)`,
                // each also written with the reverse arrow
                let q0 = known[c.aux(37 + i as u64, known.len())].clone();
                let mut f = match c.aux(36 + i as u64, 5) {
                    0 => g::bin(fol::BinaryConnective::ReverseImplication, cmp(iv("N"), fol::Relation::GreaterEqual, num(lower)), atom(&p, vec![iv("N")])),
                    1 => g::bin(fol::BinaryConnective::Implication, atom(&p, vec![iv("N")]), atom(&q0, vec![iv("N")])),
                    2 => g::bin(fol::BinaryConnective::ReverseImplication, atom(&q0, vec![iv("N")]), atom(&p, vec![iv("N")])),
                    _ => g::bin(fol::BinaryConnective::Implication, atom(&p, vec![iv("N")]), cmp(iv("N"), fol::Relation::GreaterEqual, num(lower))),
                };
                // one lemma in four speaks about everything up to the induction variable, which then occurs
                // only at the far end of a chained comparison: `forall K (n <= K <= N -> p(K))`, or
                // `forall K (n <= K < K + 1 <= N + 1 -> ..)`, whose step has a new instance to cover
                if c.data.len() > 80 && c.aux(38 + i as u64, 4) == 0 {
                    let chain = match c.aux(39 + i as u64, 3) {
                        0 => g::cmp(num(lower), vec![(fol::Relation::LessEqual, iv("K")), (fol::Relation::LessEqual, iv("N"))]),
                        1 => g::cmp(iv("N"), vec![(fol::Relation::GreaterEqual, iv("K")), (fol::Relation::GreaterEqual, num(lower))]),
                        _ => g::cmp(
                            num(lower),
                            vec![(fol::Relation::LessEqual, iv("K")), (fol::Relation::Less, num(100)), (fol::Relation::NotEqual, iv("N"))],
                        ),
                    };
                    let then = if c.aux(40 + i as u64, 2) == 0 { atom(&p, vec![iv("K")]) } else { g::bin(fol::BinaryConnective::Disjunction, atom(&p, vec![iv("K")]), atom(&q0, vec![iv("N")])) };
                    f = g::quant(true, vec![v("K", fol::Sort::Integer)], g::bin(fol::BinaryConnective::Implication, chain, then));
                }
                if c.flag(2, 3) {
                    // a part that re-binds the induction variable (or binds another one): the
                    // substitution of the base case and of the step must leave it alone
                    let q = c.pick::<String>(&known).clone();
                    let bound = if c.flag(1, 2) { "N" } else { "M" };
                    let inner = match c.next(5) {
                        0 => atom(&q, vec![iv(bound)]),
                        1 => g::not(atom(&q, vec![iv(bound)])),
                        2 => cmp(iv(bound), fol::Relation::GreaterEqual, num(c.next(3) as isize)),
                        3 => g::bin(
                            fol::BinaryConnective::Implication,
                            atom(&q, vec![iv(bound)]),
                            cmp(iv(bound), fol::Relation::LessEqual, iv("N")),
                        ),
                        _ => g::bin(
                            fol::BinaryConnective::Implication,
                            atom(&q, vec![iv("N")]),
                            cmp(iv("M"), fol::Relation::LessEqual, iv("N")),
                        ),
                    };
                    let shadow = g::quant(c.flag(1, 2), vec![v(bound, fol::Sort::Integer)], inner);
                    f = g::bin(
                        if c.flag(2, 3) { fol::BinaryConnective::Conjunction } else { fol::BinaryConnective::Disjunction },
                        f,
                        shadow,
                    );
                }
                // one lemma in four mentions the successor of the induction variable as a whole argument
                // (`.. or p(N + 1)`): the step has to move it on to `N + 1 + 1`
                if c.data.len() > 80 && c.aux(48 + i as u64, 4) == 0 {
                    let q = known[c.aux(49 + i as u64, known.len())].clone();
                    let succ = fol::GeneralTerm::IntegerTerm(fol::IntegerTerm::BinaryOperation {
                        op: fol::BinaryOperator::Add,
                        lhs: Box::new(fol::IntegerTerm::Variable("N".into())),
                        rhs: Box::new(fol::IntegerTerm::Numeral(1)),
                    });
                    let extra = if c.aux(50 + i as u64, 2) == 0 { atom(&q, vec![succ]) } else { cmp(succ, fol::Relation::Greater, num(lower + 1)) };
                    f = g::bin(if c.aux(57 + i as u64, 2) == 0 { fol::BinaryConnective::Disjunction } else { fol::BinaryConnective::Conjunction }, f, extra);
                }
                // one lemma in four has two more parameters (general variables U and W, closed by anthem or listed
                // in the quantifier): the base case and the step quantify over all of them
                if c.data.len() > 80 && c.aux(45 + i as u64, 4) == 0 {
                    let q = known[c.aux(46 + i as u64, known.len())].clone();
                    f = g::bin(
                        fol::BinaryConnective::Disjunction,
                        f,
                        g::bin(fol::BinaryConnective::Implication, atom(&q, vec![gv("U")]), g::bin(fol::BinaryConnective::Disjunction, atom(&q, vec![gv("W")]), atom(&q, vec![gv("U")]))),
                    );
                }
                let with_y = c.flag(1, 3);
                if with_y {
                    // another variable: Y, or a general variable that shares its name with the induction variable
                    let other = if c.aux(34, 2) == 0 { "Y" } else { "N" };
                    f = g::bin(fol::BinaryConnective::Disjunction, f, atom(c.pick::<String>(&known), vec![gv(other)]));
                }
                let body = g::bin(fol::BinaryConnective::Implication, cmp(iv("N"), fol::Relation::GreaterEqual, num(lower)), f);
                // free variables M (if used free) are closed by anthem; quantify explicitly half of the time
                let formula = if c.flag(1, 2) {
                    let mut vars = vec![v("N", fol::Sort::Integer)];
                    for fv in body.free_variables() {
                        if fv.name != "N" {
                            vars.push(fv);
                        }
                    }
                    g::quant(true, vars, body)
                } else {
                    body
                };
                entries.push(Entry {
                    formula: gt::annotated(fol::Role::InductiveLemma, direction(c), &format!("ind{i}"), formula),
                    kind: "inductive",
                    defined: None,
                });
            }
            _ => {
                let p = c.pick(&known).clone();
                let mut body = g::bin(fol::BinaryConnective::Implication, atom(&p, vec![gv("X")]), condition(c, &known, gv("X")));
                // one lemma in four mentions no predicate at all (pure arithmetic, possibly over a placeholder)
                if c.aux(33 + i as u64, 4) == 0 {
                    body = match task.names.placeholders.iter().find(|p| p.1 == fol::Sort::Integer) {
                        Some((n, _)) if c.aux(35, 2) == 0 => g::bin(
                            fol::BinaryConnective::Disjunction,
                            cmp(fol::GeneralTerm::SymbolicTerm(fol::SymbolicTerm::Symbol(n.clone())), fol::Relation::GreaterEqual, num(0)),
                            cmp(fol::GeneralTerm::SymbolicTerm(fol::SymbolicTerm::Symbol(n.clone())), fol::Relation::Less, gv("X")),
                        ),
                        _ => g::bin(fol::BinaryConnective::Disjunction, cmp(gv("X"), fol::Relation::GreaterEqual, num(0)), cmp(gv("X"), fol::Relation::Less, num(1))),
                    };
                }
                let formula = if c.flag(1, 2) { g::quant(true, vec![v("X", fol::Sort::General)], body) } else { body };
                entries.push(Entry {
                    formula: gt::annotated(fol::Role::Lemma, direction(c), &format!("lem{i}"), formula),
                    kind: "lemma",
                    defined: None,
                });
            }
        }
    }
    entries
}

const DEFECTS: [&str; 14] = [
    "none",
    "not-an-equivalence",
    "lhs-not-an-atom",
    "repeated-quantified-variable",
    "repeated-argument",
    "non-variable-argument",
    "free-rhs-variable",
    "predicate-of-the-task",
    "predicate-defined-earlier",
    "rhs-predicate-not-yet-defined",
    "predicate-of-the-task-after-renaming",
    "predicate-mentioned-by-earlier-lemma",
    "extra-quantified-variable-in-body",
    "preamble-predicate-name",
];

/// a definition with exactly one defect (the rest of the outline stays valid)
fn defective_definition(c: &mut Chooser, task: &ExternalTask, defect: &str, earlier: &[String]) -> fol::AnnotatedFormula {
    let inp = task.names.inputs[0].0.clone();
    let x = || gv("X");
    let ok_body = atom(&inp, vec![x()]);
    let one = |f: fol::Formula| g::quant(true, vec![v("X", fol::Sort::General)], f);
    let eqv = |l: fol::Formula, r: fol::Formula| g::bin(fol::BinaryConnective::Equivalence, l, r);
    let f = match defect {
        "not-an-equivalence" => one(g::bin(fol::BinaryConnective::Implication, atom("bad", vec![x()]), ok_body)),
        "lhs-not-an-atom" => one(eqv(g::not(atom("bad", vec![x()])), ok_body)),
        "repeated-quantified-variable" => g::quant(
            true,
            vec![v("X", fol::Sort::General), v("X", fol::Sort::General)],
            eqv(atom("bad", vec![x()]), ok_body),
        ),
        "repeated-argument" => one(eqv(atom("bad", vec![x(), x()]), ok_body)),
        "non-variable-argument" => one(eqv(atom("bad", vec![num(1 + c.next(2) as isize)]), atom(&inp, vec![num(1)]))),
        "free-rhs-variable" => one(eqv(atom("bad", vec![x()]), g::bin(fol::BinaryConnective::Conjunction, ok_body, atom(&inp, vec![gv("Free")])))),
        "predicate-of-the-task" => {
            let o = task.names.outputs.iter().find(|p| p.1 == 1).map(|p| p.0.clone()).unwrap_or(inp.clone());
            one(eqv(atom(&o, vec![x()]), ok_body))
        }
        // `forall X Y (bad(X) <-> in(Y) and X > Y)`: the slip for `exists Y`; not a definition of bad/1 - it
        // also says that in/1 has no two elements below each other's bounds (a claim about the task)
        "extra-quantified-variable-in-body" => g::quant(
            true,
            vec![v("X", fol::Sort::General), v("Y", fol::Sort::General)],
            eqv(
                atom("bad", vec![x()]),
                g::bin(fol::BinaryConnective::Conjunction, atom(&inp, vec![gv("Y")]), cmp(x(), fol::Relation::Greater, gv("Y"))),
            ),
        ),
        // the "defined" predicate is the order predicate of the preamble that every problem carries: not a
        // fresh predicate, and its definition contradicts or constrains the standard order
        "preamble-predicate-name" => g::quant(
            true,
            vec![v("X", fol::Sort::General), v("Y", fol::Sort::General)],
            eqv(
                atom(["p__less__", "p__less_equal__", "p__greater__"][c.aux(58, 3)], vec![x(), gv("Y")]),
                g::bin(fol::BinaryConnective::Conjunction, ok_body, atom(&inp, vec![gv("Y")])),
            ),
        ),
        "predicate-defined-earlier" => one(eqv(atom(&earlier[0], vec![x()]), ok_body)),
        _ => one(eqv(atom("bad", vec![x()]), atom("not_yet_defined", vec![x()]))),
    };
    // the defective definition carries any direction annotation (decided without consuming a choice)
    let direction = [fol::Direction::Universal, fol::Direction::Universal, fol::Direction::Forward, fol::Direction::Backward][c.aux(31, 4)];
    gt::annotated(fol::Role::Definition, direction, "baddef", f)
}

fn base_name(n: &str) -> &str {
    // formula_<i>_<name>
    let rest = n.strip_prefix("formula_").unwrap_or(n);
    match rest.find('_') {
        Some(i) if rest[..i].chars().all(|ch| ch.is_ascii_digit()) => &rest[i + 1..],
        _ => rest,
    }
}

fn subst_it(t: &IT, var: &str, by: &IT) -> IT {
    match t {
        IT::Var(x) if x == var => by.clone(),
        IT::Neg(a) => IT::Neg(Box::new(subst_it(a, var, by))),
        IT::Bin(op, a, b) => IT::Bin(*op, Box::new(subst_it(a, var, by)), Box::new(subst_it(b, var, by))),
        other => other.clone(),
    }
}

fn subst_tm(t: &Tm, var: &str, by: &IT) -> Tm {
    match t {
        Tm::Int(it) => Tm::Int(subst_it(it, var, by)),
        other => other.clone(),
    }
}

/// independent substitution of an integer term for the free occurrences of the integer variable
/// `var`; the replacement terms used here (a numeral, `var + 1`) cannot be captured: a quantifier
/// that binds `var` stops the substitution, and no other variable occurs in them
fn subst_free(f: &Fm, var: &str, by: &IT) -> Fm {
    match f {
        Fm::Atom(p, ts) => Fm::Atom(p.clone(), ts.iter().map(|t| subst_tm(t, var, by)).collect()),
        Fm::Cmp(t, gs) => Fm::Cmp(subst_tm(t, var, by), gs.iter().map(|(r, t)| (*r, subst_tm(t, var, by))).collect()),
        Fm::IsInt(t) => Fm::IsInt(subst_tm(t, var, by)),
        Fm::IsSym(t) => Fm::IsSym(subst_tm(t, var, by)),
        Fm::Not(g) => Fm::Not(Box::new(subst_free(g, var, by))),
        Fm::Bin(c, a, b) => Fm::Bin(*c, Box::new(subst_free(a, var, by)), Box::new(subst_free(b, var, by))),
        Fm::Q(fa, vs, g) => {
            if vs.iter().any(|(n, s)| n == var && *s == Sort::I) {
                f.clone()
            } else {
                Fm::Q(*fa, vs.clone(), Box::new(subst_free(g, var, by)))
            }
        }
        other => other.clone(),
    }
}

fn close(f: Fm) -> Fm {
    let fv: Vec<_> = f.free_vars().into_iter().collect();
    if fv.is_empty() { f } else { Fm::Q(true, fv, Box::new(f)) }
}

/// the checker's own base and step for `forall .. (N >= n -> F)` (after closure)
fn expected_induction(lemma: &Fm) -> Option<(Fm, Fm)> {
    let mut body = lemma;
    while let Fm::Q(true, _, inner) = body {
        body = inner;
    }
    let Fm::Bin(Conn::Imp, guard, f) = body else { return None };
    let Fm::Cmp(Tm::Int(IT::Var(n)), gs) = &**guard else { return None };
    let [(Rel::Ge, Tm::Int(IT::Num(k)))] = gs.as_slice() else { return None };
    let base = close(subst_free(f, n, &IT::Num(*k)));
    let step = close(Fm::bin(
        Conn::Imp,
        Fm::bin(Conn::And, (**guard).clone(), (**f).clone()),
        subst_free(f, n, &IT::Bin(Op::Add, Box::new(IT::Var(n.clone())), Box::new(IT::Num(1)))),
    ));
    Some((base, step))
}

impl Check for C13 {
    type Case = Case;
    fn name(&self) -> &'static str {
        "proof-outline"
    }
    fn cases(&self, tier: Tier) -> usize {
        tier.pick(50_000, 1_000_000)
    }
    fn strategy(&self, _tier: Tier) -> BoxedStrategy<Case> {
        (
            gt::choices(180),
            // (longer than the 80 of the recorded replays: shapes added later are switched on by the length)
            gt::choices(84),
            prop_oneof![2 => Just(0u8), 1 => 1u8..14],
            gt::choices(40),
        )
            .prop_map(|(task, outline, defect, interp)| Case { task, outline, defect, interp })
            .boxed()
    }
    fn rule(&self) -> String {
        "valid external task + generated outline (1-4 entries: definitions (one in three relative to an integer placeholder), lemmas with free or quantified variables, inductive lemmas with the induction variable occurring several times, re-bound inside, or only at the far end of a chained comparison `n <= K <= N`, every direction annotation) x flags; oracle (a) sequencing: every axiom of every problem is an axiom of the same direction of the task without outline, an accepted definition of that direction, an earlier conclusion of the final family, or the consequence of a lemma all of whose establishing problems were emitted earlier; a lemma's consequence equals its conjecture; (b) induction: whenever the emitted base/step obligations are true in a random interpretation, the checker's own base F[N:=n] and step (N>=n & F -> F[N:=N+1]) are true; (c) an outline with one definition carrying exactly one listed defect is refused with nothing emitted; non-trivial = an outline with a lemma followed by another entry, an inductive lemma, or a defect; distinct by task + outline".into()
    }
    fn run(&self, case: &Case) -> Outcome {
        let mut c = Chooser::new(case.task.clone());
        let task = gt::external_task(&mut c);
        let flags = gt::flags(&mut c);
        let mut oc = Chooser::new(case.outline.clone());
        let mut entries = outline(&mut oc, &task);
        let defect = DEFECTS[case.defect as usize % DEFECTS.len()];
        if defect != "none" {
            let earlier: Vec<String> = entries.iter().filter_map(|e| e.defined.clone()).collect();
            if defect == "predicate-defined-earlier" && earlier.is_empty() {
                return Outcome::skip("no earlier definition to clash with");
            }
            let bad = if defect == "predicate-of-the-task-after-renaming" {
                // the name a clashing private predicate of the program received in the problems
                let base_flags = Flags { sequential: false, ..flags.clone() };
                let Ok((base, _)) = ops::external_problems(&task, &ops::empty_outline(), &base_flags, false) else {
                    return Outcome::skip("task without outline refused");
                };
                let names = crate::ext_ref::discover_right_names(&task, &base);
                let Some((pred, emitted)) = names.iter().find(|(p, n)| p.0 != **n) else {
                    return Outcome::skip("no private predicate is renamed in this task");
                };
                let args: Vec<fol::GeneralTerm> = (0..pred.1).map(|_| gv("X")).collect();
                let inp = task.names.inputs[0].0.clone();
                let body = g::bin(
                    fol::BinaryConnective::Equivalence,
                    atom(emitted, args),
                    if pred.1 == 0 { g::not(atom(&inp, vec![num(0)])) } else { atom(&inp, vec![gv("X")]) },
                );
                let f = if pred.1 == 0 { body } else { g::quant(true, vec![v("X", fol::Sort::General)], body) };
                // the defective definition carries any direction annotation (decided without consuming a choice)
    let direction = [fol::Direction::Universal, fol::Direction::Universal, fol::Direction::Forward, fol::Direction::Backward][c.aux(31, 4)];
    gt::annotated(fol::Role::Definition, direction, "baddef", f)
            } else if defect == "predicate-mentioned-by-earlier-lemma" {
                // a lemma talks about `bad/1`, a later (otherwise well-formed) definition defines it
                let inp = task.names.inputs[0].0.clone();
                let lemma = g::quant(
                    true,
                    vec![v("X", fol::Sort::General)],
                    g::bin(fol::BinaryConnective::Implication, atom("bad", vec![gv("X")]), atom("bad", vec![gv("X")])),
                );
                let ldir = [fol::Direction::Universal, fol::Direction::Forward, fol::Direction::Backward][oc.aux(32, 3)];
                entries.push(Entry { formula: gt::annotated(fol::Role::Lemma, ldir, "about_bad", lemma), kind: "lemma", defined: None });
                let def = g::quant(
                    true,
                    vec![v("X", fol::Sort::General)],
                    g::bin(fol::BinaryConnective::Equivalence, atom("bad", vec![gv("X")]), atom(&inp, vec![gv("X")])),
                );
                gt::annotated(fol::Role::Definition, fol::Direction::Universal, "baddef", def)
            } else {
                defective_definition(&mut oc, &task, defect, &earlier)
            };
            // after all valid entries, so that "defined earlier" is meaningful
            entries.push(Entry { formula: bad, kind: "definition", defined: None });
        }
        let spec = fol::Specification {
            formulas: entries.iter().map(|e| e.formula.clone()).collect(),
        };
        let description = format!(
            "{}\n  outline: {}\n  flags: {}",
            describe_external(&task),
            safe_print::specification(&spec, &Style::plain()),
            flags.describe()
        );
        let result = ops::external_problems(&task, &spec, &flags, false);
        let key = hash64(&description);
        if defect != "none" {
            return match result {
                Err(_) => Outcome::pass(true, key).label(format!("defect={defect}")).label("refused"),
                Ok((problems, _)) => Outcome::fail(
                    format!("defective-definition-accepted:{defect}"),
                    format!("C13: an outline whose last definition has the defect '{defect}' was accepted ({} problems)\n{description}", problems.len()),
                ),
            };
        }
        let problems = match result {
            Ok((p, _)) => p,
            Err((variant, msg)) => {
                return Outcome::fail(
                    format!("valid-outline-refused:{variant}"),
                    format!("C13: a valid outline was refused ({variant}): {msg}\n{description}"),
                );
            }
        };
        // reference axioms: the task without outline, independent decomposition
        let base_flags = Flags { sequential: false, ..flags.clone() };
        let base = match ops::external_problems(&task, &ops::empty_outline(), &base_flags, false) {
            Ok((p, _)) => p,
            Err(_) => return Outcome::skip("task without outline refused"),
        };
        let mut nontrivial = false;
        let mut labels = vec![];
        for prefix in ["forward", "backward"] {
            let family: Vec<(usize, &ProblemData)> = problems.iter().enumerate().filter(|(_, p)| p.name.starts_with(prefix)).collect();
            if family.is_empty() {
                continue;
            }
            let base_axioms: Option<Vec<fol::Formula>> = base
                .iter()
                .find(|p| p.name.starts_with(prefix))
                .map(|p| p.formulas.iter().filter(|f| !f.conjecture).map(|f| f.formula.clone()).collect());
            let applies = |d: fol::Direction| d == fol::Direction::Universal || (d == fol::Direction::Forward) == (prefix == "forward");
            // establishing problems per lemma name
            let mut established_at: BTreeMap<String, Vec<usize>> = BTreeMap::new();
            for (idx, p) in &family {
                for f in p.formulas.iter().filter(|f| f.conjecture) {
                    let b = base_name(&f.name).to_string();
                    for e in entries.iter().filter(|e| e.kind != "definition") {
                        let n = &e.formula.name;
                        if b == *n || b == format!("{n}base_case") || b == format!("{n}inductive_step") {
                            established_at.entry(n.clone()).or_default().push(*idx);
                        }
                    }
                }
            }
            for (pos, (idx, p)) in family.iter().enumerate() {
                let earlier_conclusions: Vec<&fol::Formula> = family[..pos]
                    .iter()
                    .filter(|(_, q)| q.name.contains("_problem"))
                    .flat_map(|(_, q)| q.formulas.iter().filter(|f| f.conjecture).map(|f| &f.formula))
                    .collect();
                for f in p.formulas.iter().filter(|f| !f.conjecture) {
                    let b = base_name(&f.name);
                    if let Some(e) = entries.iter().find(|e| e.formula.name == b) {
                        if !applies(e.formula.direction) {
                            return Outcome::fail(
                                "outline-entry-wrong-direction",
                                format!("C13: {} ({:?}) is an axiom of {} \n{description}", b, e.formula.direction, p.name),
                            );
                        }
                        if e.kind == "definition" {
                            continue;
                        }
                        let needed = if e.kind == "inductive" { 2 } else { 1 };
                        let at = established_at.get(b).cloned().unwrap_or_default();
                        if at.len() < needed || at.iter().any(|i| *i >= *idx) {
                            return Outcome::fail(
                                "lemma-used-before-established",
                                format!(
                                    "C13: lemma {b} is an axiom of problem {} (position {idx}) but its establishing problems are at positions {at:?} (needs {needed}, all earlier)\n{description}\n  emitted order: {:?}",
                                    p.name,
                                    problems.iter().map(|p| p.name.clone()).collect::<Vec<_>>()
                                ),
                            );
                        }
                        nontrivial = true;
                        continue;
                    }
                    // not an outline entry: a premise of the direction or an earlier conclusion
                    let in_base = base_axioms.as_ref().is_some_and(|b| b.contains(&f.formula));
                    let earlier = earlier_conclusions.contains(&&f.formula);
                    if base_axioms.is_some() && !in_base && !earlier {
                        return Outcome::fail(
                            "unjustified-axiom",
                            format!(
                                "C13: axiom {} = {} of problem {} is neither a premise of the {prefix} direction, nor an outline entry, nor an earlier conclusion\n{description}",
                                f.name, f.formula, p.name
                            ),
                        );
                    }
                }
            }
            // a plain lemma's consequence must be the formula that was proven
            for e in entries.iter().filter(|e| e.kind == "lemma" && applies(e.formula.direction)) {
                let n = &e.formula.name;
                let proven: Vec<&fol::Formula> = family
                    .iter()
                    .flat_map(|(_, p)| p.formulas.iter())
                    .filter(|f| f.conjecture && base_name(&f.name) == n)
                    .map(|f| &f.formula)
                    .collect();
                let used: Vec<&fol::Formula> = family
                    .iter()
                    .flat_map(|(_, p)| p.formulas.iter())
                    .filter(|f| !f.conjecture && base_name(&f.name) == n)
                    .map(|f| &f.formula)
                    .collect();
                if proven.is_empty() {
                    return Outcome::fail("lemma-not-proven", format!("C13: lemma {n} has no establishing problem in the {prefix} direction\n{description}"));
                }
                if used.iter().any(|u| !proven.contains(u)) {
                    return Outcome::fail("lemma-differs-from-conjecture", format!("C13: lemma {n} is used as an axiom in a different form than it was proven\n{description}"));
                }
            }
            // induction soundness
            for e in entries.iter().filter(|e| e.kind == "inductive" && applies(e.formula.direction)) {
                let n = &e.formula.name;
                let find = |suffix: &str| -> Option<&fol::Formula> {
                    family
                        .iter()
                        .flat_map(|(_, p)| p.formulas.iter())
                        .find(|f| f.conjecture && base_name(&f.name) == format!("{n}{suffix}"))
                        .map(|f| &f.formula)
                };
                let (Some(base_f), Some(step_f)) = (find("base_case"), find("inductive_step")) else {
                    return Outcome::fail("induction-obligation-missing", format!("C13: inductive lemma {n} lacks a base or step obligation ({prefix})\n{description}"));
                };
                let source = crate::ext_ref::lower_with_placeholders(&e.formula.formula, &task.names.placeholders);
                let Some((exp_base, exp_step)) = expected_induction(&close(source)) else {
                    return Outcome::skip("inductive lemma shape not recognised by the checker");
                };
                // random interpretation over the unary predicates
                let mut sig = ir::Signature::default();
                exp_base.signature(&mut sig);
                exp_step.signature(&mut sig);
                let preds: Vec<(String, usize)> = sig.preds.iter().cloned().collect();
                let fcs: Vec<ir::VarId> = task.names.placeholders.iter().map(|(n, s)| (n.clone(), ir::sort_of(*s))).collect();
                let pool = g::value_pool(&sig, &["zz"]);
                let window: Vec<_> = pool.iter().take(10).cloned().collect();
                for round in 0..3u16 {
                    let mut ic = Chooser::new(case.interp.iter().map(|x| x.wrapping_mul(round * 2 + 1).wrapping_add(round)).collect());
                    let mut interp = crate::dom::Interp::default();
                    for p in &preds {
                        let ext = interp.preds.entry(p.clone()).or_default();
                        for _ in 0..ic.next(6) {
                            ext.insert((0..p.1).map(|_| ic.pick(&window).clone()).collect());
                        }
                    }
                    for (nme, s) in &fcs {
                        let cands: Vec<_> = window.iter().filter(|v| s.admits(v)).collect();
                        let val = if cands.is_empty() { crate::dom::Val::Int(0) } else { (*ic.pick(&cands)).clone() };
                        interp.fcs.insert((nme.clone(), *s), val);
                    }
                    let ev = |f: &Fm| Ev::classical(&interp, &window, false).with_budget(200_000).sat(f, &mut Env::new(), World::T);
                    for (what, emitted, expected) in [("base", ir::lower(base_f), &exp_base), ("step", ir::lower(step_f), &exp_step)] {
                        if let (Some(true), Some(false)) = (ev(&emitted), ev(expected)) {
                            return Outcome::fail(
                                format!("induction-{what}-too-weak"),
                                format!(
                                    "C13: the emitted {what} obligation of inductive lemma {n} is true in an interpretation where the required one is false\n  lemma: {}\n  emitted: {}\n  interpretation: {}\n{description}",
                                    e.formula.formula,
                                    if what == "base" { base_f } else { step_f },
                                    interp.json()
                                ),
                            );
                        }
                    }
                }
                nontrivial = true;
                labels.push("inductive".to_string());
            }
        }
        let lemma_then_more = entries.iter().position(|e| e.kind != "definition").is_some_and(|i| i + 1 < entries.len());
        if lemma_then_more {
            labels.push("lemma-followed-by-entry".to_string());
        }
        labels.sort();
        labels.dedup();
        Outcome::pass(nontrivial, key).labels(labels)
    }
    fn describe(&self, case: &Case) -> Value {
        let mut c = Chooser::new(case.task.clone());
        let task = gt::external_task(&mut c);
        let mut oc = Chooser::new(case.outline.clone());
        let entries = outline(&mut oc, &task);
        let spec = fol::Specification {
            formulas: entries.iter().map(|e| e.formula.clone()).collect(),
        };
        json!({
            "task": case.task, "outline": case.outline, "defect": case.defect, "interp": case.interp,
            "readable_task": describe_external(&task),
            "readable_outline": safe_print::specification(&spec, &Style::plain()),
        })
    }
    fn from_replay(&self, j: &Value) -> Option<Case> {
        let arr = |k: &str| -> Option<Vec<u16>> { Some(j[k].as_array()?.iter().map(|x| x.as_u64().unwrap() as u16).collect()) };
        Some(Case {
            task: arr("task")?,
            outline: arr("outline")?,
            defect: j["defect"].as_u64()? as u8,
            interp: arr("interp")?,
        })
    }
}
