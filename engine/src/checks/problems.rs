//! C09 — every emitted problem is well-formed, well-typed, self-contained TFF.
//! C12 — the axioms anthem adds on its own are true in every standard interpretation.
use crate::checks::c05::ht_as_classical;
use crate::checks::c17::{raw_from_json, raw_json};
use crate::dom::{Interp, Val};
use crate::eval::{Env, Ev, World};
use crate::generators::asp::{self as ga, AspCfg};
use crate::generators::fol::{self as g, RawInterp};
use crate::generators::task::{self as gt, Chooser, ExternalTask, Flags};
use crate::ops;
use crate::runner::{Check, Outcome, Tier, hash64};
use crate::safe_print::{self, Style};
use crate::tff::{self, ConstKind, Entry};
use anthem::syntax_tree::asp::mini_gringo as asp;
use anthem::syntax_tree::fol::sigma_0 as fol;
use anthem::verif::ProblemData;
use proptest::prelude::*;
use serde_json::{Value, json};
use std::collections::{BTreeMap, BTreeSet};

#[derive(Clone, Debug)]
pub enum TaskCase {
    Strong {
        left: asp::Program,
        right: asp::Program,
        mu: bool,
        choices: Vec<u16>,
    },
    External {
        choices: Vec<u16>,
    },
}

/// what the names of a task look like, for classifying typing errors
#[derive(Clone, Debug, Default)]
pub struct NameInfo {
    pub predicates: BTreeSet<(String, usize)>,
    pub symbols: BTreeSet<String>,
    pub placeholders: BTreeSet<String>, // mangled names n_i / n_g / n_s
}

fn info_of(problem: &ProblemData) -> NameInfo {
    let mut n = NameInfo::default();
    for f in &problem.formulas {
        for p in f.formula.predicates() {
            n.predicates.insert((p.symbol, p.arity));
        }
        // symbols by the checker's own traversal (anthem's `symbols()` feeds the very declarations under test)
        let mut sig = crate::ir::Signature::default();
        crate::ir::lower(&f.formula).signature(&mut sig);
        n.symbols.extend(sig.syms);
        for c in f.formula.function_constants() {
            let suffix = match c.sort {
                fol::Sort::General => "g",
                fol::Sort::Integer => "i",
                fol::Sort::Symbol => "s",
            };
            n.placeholders.insert(format!("{}_{suffix}", c.name));
        }
    }
    n
}

const RESERVED: [&str; 14] = [
    "general", "symbol", "f__integer__", "f__symbolic__", "c__infimum__", "c__supremum__", "p__is_integer__",
    "p__is_symbolic__", "p__less_equal__", "p__less__", "p__greater_equal__", "p__greater__", "tff", "type",
];

/// a signature narrow enough that a different defect of C09 gets a different one
pub fn classify(e: &tff::TffError, info: &NameInfo) -> String {
    let subject = e
        .message
        .split_whitespace()
        .skip_while(|w| *w != "symbol")
        .nth(1)
        .unwrap_or("")
        .to_string();
    match e.class.as_str() {
        "type:two-types" | "type:declared-twice" => {
            let arities: Vec<usize> = info.predicates.iter().filter(|p| p.0 == subject).map(|p| p.1).collect();
            let is_sym = info.symbols.contains(&subject);
            let is_ph = info.placeholders.contains(&subject);
            let kind = if RESERVED.contains(&subject.as_str()) {
                "reserved-word"
            } else if arities.len() > 1 {
                "predicate-arity-overload"
            } else if is_sym && arities == [0] {
                // (clashes with 0-ary predicates are the ones anthem renames: never a recorded finding)
                "symbol-vs-proposition"
            } else if is_sym && !arities.is_empty() {
                "symbol-vs-predicate"
            } else if is_sym && is_ph {
                "symbol-vs-mangled-placeholder"
            } else if is_ph && !arities.is_empty() {
                "placeholder-vs-predicate"
            } else {
                "other"
            };
            format!("{}:{kind}", e.class)
        }
        other => other.to_string(),
    }
}

pub fn check_problem(problem: &ProblemData) -> Result<tff::Checked, (String, String)> {
    match tff::check(&problem.text) {
        Ok(c) => {
            if c.conjectures != 1 {
                return Err((
                    "structure:conjecture-count".into(),
                    format!("problem {} has {} conjectures", problem.name, c.conjectures),
                ));
            }
            Ok(c)
        }
        Err(e) => Err((classify(&e, &info_of(problem)), format!("problem {}: {}", problem.name, e.message))),
    }
}

fn strong_cfg(known_shapes: bool) -> AspCfg {
    if known_shapes {
        AspCfg {
            preds: vec![("p".into(), 1), ("p".into(), 2), ("_q".into(), 1), ("s".into(), 0), ("general".into(), 1)],
            vars: vec!["X".into(), "Y".into()],
            syms: vec!["a".into(), "p".into(), "_a".into(), "s".into(), "s__s".into(), "general".into(), "p__less__".into()],
            num_lo: -1,
            num_hi: 2,
            term_depth: 1,
            op_weights: [3, 3, 2, 1, 1, 2],
            max_body: 2,
            max_rules: 3,
            exotic_leaf_weight: 8,
        }
    } else {
        AspCfg {
            // (q_i at two arities: a recorded finding of C09 for the text; the trees are still judged by C12)
            preds: vec![("p".into(), 1), ("hp".into(), 1), ("tp".into(), 2), ("q_i".into(), 1), ("q_i".into(), 2), ("s".into(), 0), ("x__s".into(), 1), ("r_g".into(), 0), ("w".into(), 11)],
            vars: vec!["X".into(), "Y".into(), "V1".into()],
            syms: vec!["a".into(), "s".into(), "b_s".into(), "aB_1".into(), "a1".into(), "a_".into(), "ab".into(), "s0".into(), "sA".into(), "r_g".into(), "location_b".into(), "location_a".into(), "locationA".into(), "constant2".into(), "constant10".into(), "constant".into(), "constant_".into()],
            num_lo: -2,
            num_hi: 3,
            term_depth: 2,
            op_weights: [3, 3, 2, 2, 2, 3],
            max_body: 3,
            max_rules: 3,
            exotic_leaf_weight: 8,
        }
    }
}

pub fn task_strategy(known_shapes: bool) -> BoxedStrategy<TaskCase> {
    let c = strong_cfg(known_shapes);
    prop_oneof![
        1 => (ga::program(&c), ga::program(&c), any::<bool>(), gt::choices(8)).prop_map(|(left, right, mu, choices)| TaskCase::Strong { left, right, mu, choices }),
        1 => gt::choices(185).prop_map(|choices| TaskCase::External { choices }),
    ]
    .boxed()
}

pub struct Built {
    /// symbolic constants written in the task's source files (placeholders excluded)
    pub source_symbols: BTreeSet<String>,
    pub problems: Vec<ProblemData>,
    pub description: String,
    pub strong: bool,
    pub tricky: bool,
    /// the two programs of a strong-equivalence task as given to anthem (after injected rules)
    pub strong_programs: Option<(asp::Program, asp::Program)>,
}

/// build the problems of a task case; Err(outcome) when the case has to be skipped
pub fn build(case: &TaskCase, known_shapes: bool) -> Result<Built, Outcome> {
    build_mode(case, known_shapes, false)
}

/// `symbol_like_predicate`: one external task in four names symbolic constants like a unary predicate of
/// the task and like that name followed by a digit or an upper-case letter (the problems of such tasks are
/// ill-typed on the unchanged tree, a recorded finding of C09, and are skipped by the caller)
pub fn build_mode(case: &TaskCase, known_shapes: bool, symbol_like_predicate: bool) -> Result<Built, Outcome> {
    match case {
        TaskCase::Strong { left, right, mu, choices } => {
            let mut c = Chooser::new(choices.clone());
            let flags = gt::flags(&mut c);
            // one pair in six gets a propositional atom `e0` that occurs in redundant rules only (`e0 :- e0.`,
            // which simplification reduces to #true) next to a symbolic constant spelled like its here- or
            // there-copy (`he0`, `te0`): the copies are predicates of every problem whatever simplification
            // leaves of the rules, so the constant has to be renamed
            let (mut left, mut right) = (left.clone(), right.clone());
            if !known_shapes && c.aux(160, 6) == 0 {
                let redundant = ["e0 :- e0.", "e0 :- e0, e0.", "e0 :- not not e0, e0."][c.aux(161, 3)];
                let constant = ["he0", "te0"][c.aux(162, 2)];
                let user = ["p", "x__s", "q_i"][c.aux(163, 3)];
                if let (Ok(r1), Ok(r2)) = (redundant.parse::<asp::Rule>(), format!("{user}({constant}).").parse::<asp::Rule>()) {
                    left.rules.push(r1.clone());
                    if c.aux(164, 2) == 0 {
                        right.rules.push(r1);
                    }
                    if c.aux(165, 2) == 0 { left.rules.push(r2) } else { right.rules.push(r2) }
                }
            }
            let (left, right) = (&left, &right);
            let problems = ops::strong_problems(left, right, &flags, *mu);
            Ok(Built {
                source_symbols: gt::program_symbols(left).into_iter().chain(gt::program_symbols(right)).collect(),
                problems,
                description: format!(
                    "strong equivalence\n  left: {}\n  right: {}\n  flags: {} mu={mu}",
                    safe_print::asp_program(left, &Style::plain()),
                    safe_print::asp_program(right, &Style::plain()),
                    flags.describe()
                ),
                strong: true,
                tricky: true,
                strong_programs: Some((left.clone(), right.clone())),
            })
        }
        TaskCase::External { choices } => {
            let mut c = Chooser::new(choices.clone());
            let mut names = if c.flag(2, 3) { gt::Names::tricky(&mut c) } else { gt::Names::clean(&mut c) };
            if known_shapes {
                match c.next(3) {
                    0 => names.symbols = vec!["n_i".into(), "u".into()],
                    1 => names.symbols = vec!["_a".into(), "u".into()],
                    _ => names.symbols = vec!["o1".into(), "in1".into()],
                }
                if !names.placeholders.iter().any(|p| p.0 == "n") {
                    names.placeholders.insert(0, ("n".into(), fol::Sort::Integer));
                }
                // a symbol-sorted placeholder k next to a symbolic constant k_s: one TPTP name, the same
                // type twice (cases recorded with 160 choices predate this shape)
                if choices.len() > 160 && c.aux(95, 4) == 0 {
                    names.symbols = vec!["k_s".into(), "u".into()];
                    names.placeholders.retain(|p| p.0 != "k");
                    names.placeholders.insert(0, ("k".into(), fol::Sort::Symbol));
                }
            }
            if symbol_like_predicate && choices.len() > 160 && c.aux(97, 4) == 0 {
                let o = names.outputs[0].0.clone();
                names.symbols = vec![o.clone(), format!("{o}0"), format!("{o}A"), "u".into()];
            }
            let mut task = gt::external_task_with(&mut c, names);
            let flags = gt::flags(&mut c);
            // (cases recorded with 160 choices predate this shape and keep their meaning)
            if !known_shapes && choices.len() > 160 && task.left_spec.is_some() && c.aux(71, 3) == 0 {
                // a propositional input predicate `y` that only one specification formula mentions,
                // next to symbolic constants y, y0: `y` then occurs in some sub-problems only
                task.user_guide.entries.insert(
                    0,
                    fol::UserGuideEntry::InputPredicate(fol::Predicate { symbol: "y".into(), arity: 0 }),
                );
                let o = task.names.outputs[0].0.clone();
                if let Ok(f) = format!("y -> exists X ({o}(X) or not {o}(X))").parse::<fol::Formula>() {
                    let spec = task.left_spec.as_mut().unwrap();
                    let at = c.aux(72, spec.formulas.len() + 1);
                    spec.formulas.insert(at, gt::annotated(fol::Role::Spec, fol::Direction::Universal, "about_y", f));
                }
                for s in ["y", "y0", "yA"] {
                    if let Ok(r) = format!("{o}({s}).").parse::<asp::Rule>() {
                        task.right.rules.push(r);
                    }
                }
            }
            // one task in three comes with a generated proof outline (definitions, lemmas, inductive lemmas;
            // the outline mentions placeholders but no symbolic constant of its own); cases recorded with
            // up to 181 choices predate this
            let mut outline = ops::empty_outline();
            if !known_shapes && choices.len() > 181 && c.aux(73, 3) == 0 {
                let mut oc = Chooser::new(choices.iter().rev().cloned().collect());
                let entries = crate::checks::c13::outline(&mut oc, &task);
                let candidate = fol::Specification { formulas: entries.iter().map(|e| e.formula.clone()).collect() };
                if ops::external_problems(&task, &candidate, &flags, false).is_ok() {
                    outline = candidate;
                }
            }
            match ops::external_problems(&task, &outline, &flags, false) {
                Ok((problems, _)) => Ok(Built {
                    source_symbols: gt::external_source_symbols(&task),
                    problems,
                    description: format!(
                        "{}\n  flags: {}{}",
                        describe_external(&task),
                        flags.describe(),
                        if outline.formulas.is_empty() { String::new() } else { format!("\n  outline: {}", safe_print::specification(&outline, &Style::plain())) }
                    ),
                    strong: false,
                    tricky: true,
                    strong_programs: None,
                }),
                Err((variant, msg)) => Err(Outcome::fail(
                    format!("valid-task-refused:{variant}"),
                    format!("a task that is valid by construction was refused ({variant}): {msg}\n{}", describe_external(&task)),
                )),
            }
        }
    }
}

pub fn describe_external(task: &ExternalTask) -> String {
    format!(
        "external equivalence ({})\n  left: {}\n  right: {}\n  user guide: {}",
        task.mutation,
        match (&task.left_program, &task.left_spec) {
            (Some(p), _) => safe_print::asp_program(p, &Style::plain()),
            (_, Some(s)) => safe_print::specification(s, &Style::plain()),
            _ => String::new(),
        },
        safe_print::asp_program(&task.right, &Style::plain()),
        safe_print::user_guide(&task.user_guide, &Style::plain())
    )
}

pub fn case_json(case: &TaskCase) -> Value {
    match case {
        TaskCase::Strong { left, right, mu, choices } => json!({
            "kind": "strong",
            "left": safe_print::asp_program(left, &Style::plain()),
            "right": safe_print::asp_program(right, &Style::plain()),
            "mu": mu, "choices": choices,
        }),
        TaskCase::External { choices } => {
            let mut c = Chooser::new(choices.clone());
            let _ = &mut c;
            json!({"kind": "external", "choices": choices})
        }
    }
}

pub fn case_from_json(j: &Value) -> Option<TaskCase> {
    let choices: Vec<u16> = j["choices"].as_array()?.iter().map(|x| x.as_u64().unwrap() as u16).collect();
    match j["kind"].as_str()? {
        "strong" => Some(TaskCase::Strong {
            left: j["left"].as_str()?.parse().ok()?,
            right: j["right"].as_str()?.parse().ok()?,
            mu: j["mu"].as_bool()?,
            choices,
        }),
        "external" => Some(TaskCase::External { choices }),
        _ => None,
    }
}

// ---------------------------------------------------------------------------------------
// C09

pub struct C09 {
    pub known_shapes: bool,
}

impl Check for C09 {
    type Case = TaskCase;
    fn name(&self) -> &'static str {
        if self.known_shapes { "well-formed-known-shapes" } else { "well-formed" }
    }
    fn cases(&self, tier: Tier) -> usize {
        if self.known_shapes { tier.pick(5_000, 60_000) } else { tier.pick(40_000, 800_000) }
    }
    fn strategy(&self, _tier: Tier) -> BoxedStrategy<TaskCase> {
        task_strategy(self.known_shapes)
    }
    fn rule(&self) -> String {
        if self.known_shapes {
            "tasks over the identifier shapes of the recorded findings (leading underscores, one predicate name at two arities, a symbol named like a predicate of arity > 0 or like a mangled placeholder, reserved words); every problem goes through the strict TFF reader and type checker; failures are classified into narrow signatures and compared with known_findings.json; non-trivial = every accepted task; distinct by problem text".into()
        } else {
            "accepted strong and external tasks (all flag combinations; one external task in three with a generated proof outline) over tricky but handled identifier shapes (names ending in _i/_g/_s/__s, h-/t-prefixed predicates, a symbol named like a 0-ary predicate, symbols with common prefixes); oracle: each problem text passes the strict TFF reader and type checker: valid words, unique formula names, one declaration and one type per identifier, declared before use, all uses typed, variables bound by typed quantifiers, exactly one conjecture; non-trivial = every problem of an accepted task; distinct by problem text".into()
        }
    }
    fn run(&self, case: &TaskCase) -> Outcome {
        let built = match build(case, self.known_shapes) {
            Ok(b) => b,
            Err(o) => {
                // a refusal is this check's business only for tasks that are valid by construction
                return if self.known_shapes { Outcome::skip("task refused") } else { o };
            }
        };
        if built.problems.is_empty() {
            return Outcome::skip("no problems (empty direction)");
        }
        let mut key = String::new();
        let mut names = BTreeSet::new();
        for p in &built.problems {
            if !names.insert(p.name.clone()) {
                return Outcome::fail("duplicate-problem-name", format!("C09: two problems are named {}\n{}", p.name, built.description));
            }
            if let Err((sig, msg)) = check_problem(p) {
                return Outcome::fail(sig, format!("C09: {msg}\n{}\n--- problem text ---\n{}", built.description, tail(&p.text)));
            }
            key.push_str(&p.text[p.text.len().saturating_sub(400)..]);
        }
        Outcome::pass(true, hash64(&key))
            .readable(built.description.clone())
            .label(if built.strong { "strong" } else { "external" })
            .label(format!("problems={}", built.problems.len().min(8)))
    }
    fn describe(&self, case: &TaskCase) -> Value {
        case_json(case)
    }
    fn from_replay(&self, j: &Value) -> Option<TaskCase> {
        case_from_json(j)
    }
}

// ---------------------------------------------------------------------------------------
// C09: syntax differential against the TPTP reference tool shipped with the repository's tests

pub struct Tptp4x;

const TPTP4X: &str = "/repo/tests/examples/tptp4X_linux";

impl Check for Tptp4x {
    type Case = TaskCase;
    fn name(&self) -> &'static str {
        "tptp4x-differential"
    }
    fn shards(&self) -> usize {
        8
    }
    fn shrink_steps(&self) -> usize {
        100
    }
    fn cases(&self, tier: Tier) -> usize {
        tier.pick(250, 8_000)
    }
    fn strategy(&self, _tier: Tier) -> BoxedStrategy<TaskCase> {
        task_strategy(false)
    }
    fn rule(&self) -> String {
        "tasks as in part well-formed; up to 4 problems of each task are written to files and read by tptp4X (the TPTP syntax tool the repository's own tests use); oracle: tptp4X accepts every problem the strict reader accepts (a problem the strict reader rejects is reported by part well-formed); non-trivial = at least one problem accepted by both; distinct by problem text; skipped when the tool is absent".into()
    }
    fn run(&self, case: &TaskCase) -> Outcome {
        if !std::path::Path::new(TPTP4X).exists() {
            return Outcome::skip("tptp4X not present");
        }
        let built = match build(case, false) {
            Ok(b) => b,
            Err(_) => return Outcome::skip("task refused (reported by part well-formed)"),
        };
        let dir = crate::cli::scratch_dir("c09x");
        let mut key = String::new();
        let mut both = 0;
        let mut result = None;
        let n = built.problems.len();
        for (i, p) in built.problems.iter().enumerate().filter(|(i, _)| *i < 2 || *i + 2 >= n) {
            if !p.text.is_ascii() || check_problem(p).is_err() {
                continue;
            }
            let path = dir.join(format!("p{i}.p"));
            std::fs::write(&path, &p.text).unwrap();
            let out = match std::process::Command::new(TPTP4X).arg("-q3").arg(&path).output() {
                Ok(o) => o,
                Err(_) => {
                    result = Some(Outcome::skip("tptp4X cannot be started"));
                    break;
                }
            };
            if !out.status.success() {
                result = Some(Outcome::fail(
                    "tptp4x-rejects",
                    format!(
                        "C09: tptp4X rejects problem {} which the strict reader accepts\n  tptp4X: {}{}\n{}\n--- problem text ---\n{}",
                        p.name,
                        String::from_utf8_lossy(&out.stdout).chars().take(400).collect::<String>(),
                        String::from_utf8_lossy(&out.stderr).chars().take(400).collect::<String>(),
                        built.description,
                        tail(&p.text)
                    ),
                ));
                break;
            }
            both += 1;
            key.push_str(&p.text[p.text.len().saturating_sub(400)..]);
        }
        let _ = std::fs::remove_dir_all(&dir);
        if let Some(o) = result {
            return o;
        }
        Outcome::pass(both > 0, hash64(&key)).label(format!("checked={both}")).readable(built.description.clone())
    }
    fn describe(&self, case: &TaskCase) -> Value {
        case_json(case)
    }
    fn from_replay(&self, j: &Value) -> Option<TaskCase> {
        case_from_json(j)
    }
}

fn tail(text: &str) -> String {
    // skip the fixed preamble
    text.lines().skip(27).collect::<Vec<_>>().join("\n")
}

// ---------------------------------------------------------------------------------------
// C12

#[derive(Clone, Debug)]
pub struct OwnCase {
    pub task: TaskCase,
    pub raw: RawInterp,
}

pub struct C12;

fn entry_name(e: &Entry) -> &str {
    match e {
        Entry::TypeDecl { name, .. } | Entry::Logic { name, .. } => name,
    }
}

impl Check for C12 {
    type Case = OwnCase;
    fn name(&self) -> &'static str {
        "own-axioms"
    }
    fn cases(&self, tier: Tier) -> usize {
        tier.pick(40_000, 800_000)
    }
    fn strategy(&self, _tier: Tier) -> BoxedStrategy<OwnCase> {
        (task_strategy(false), g::raw_interp(8, 0, 2, 4))
            .prop_map(|(task, raw)| OwnCase { task, raw })
            .boxed()
    }
    fn rule(&self) -> String {
        "accepted strong and external tasks as in C09, one external task in three with a generated proof outline whose definitions may mention a placeholder (symbols with common prefixes, digits and upper-case letters after the prefix, symbols renamed because of a 0-ary predicate); for every problem: (a) the symbol_order_* axioms mention exactly the declared symbolic constants, form one connected chain, and every link is true in the standard order when each constant is read as the source symbol it stands for; (b) every transition_axiom_* is true in I_(H,T) for a random H subset-of T, and there is one per predicate; (c) every other axiom that does not stem from the input files is a preamble axiom; non-trivial = the problem has at least 2 symbolic constants or a transition axiom with H != T; distinct by the auto-generated part of the problem text".into()
    }
    fn run(&self, case: &OwnCase) -> Outcome {
        let built = match build_mode(&case.task, false, true) {
            Ok(b) => b,
            Err(_) => return Outcome::skip("task refused (reported by C09)"),
        };
        let mut nontrivial = false;
        let mut key = String::new();
        let mut labels = vec![];
        for p in &built.problems {
            // syntax only at first: the declarations are compared with the formulas' symbols below,
            // and an undeclared constant is this property's business (the chain has to cover it)
            let parsed = match tff::parse(&p.text) {
                Ok(es) => es,
                Err(_) => return Outcome::skip("problem not well-formed (reported by C09)"),
            };
            // source symbols of the problem: the syntax trees of the hook carry the (renamed) symbols
            let mut tree_symbols: BTreeSet<String> = BTreeSet::new();
            let mut zero_ary: BTreeSet<String> = BTreeSet::new();
            for f in &p.formulas {
                // by the checker's own traversal of the tree, not anthem's `symbols()`
                let mut sig = crate::ir::Signature::default();
                crate::ir::lower(&f.formula).signature(&mut sig);
                tree_symbols.extend(sig.syms);
                for q in f.formula.predicates() {
                    if q.arity == 0 {
                        zero_ary.insert(q.symbol);
                    }
                }
            }
            let declared: Vec<String> = parsed
                .iter()
                .filter_map(|e| match e {
                    Entry::TypeDecl { name, symbol, .. } if name.starts_with("type_symbol_") => Some(symbol.clone()),
                    _ => None,
                })
                .collect();
            let declared_set: BTreeSet<String> = declared.iter().cloned().collect();
            if declared_set != tree_symbols {
                return Outcome::fail(
                    "symbols-declared-vs-used",
                    format!("C12: declared symbolic constants {declared_set:?} differ from the symbols of the formulas {tree_symbols:?}\n{}", built.description),
                );
            }
            // one transition axiom per predicate of the two programs, name and arity (judged on the syntax
            // trees, before the type check: a name at two arities makes the text ill-typed, a recorded finding
            // of C09, but each of the two predicates still needs its axiom)
            if let Some((left, right)) = &built.strong_programs {
                let mut preds: BTreeSet<(String, usize)> = BTreeSet::new();
                for program in [left, right] {
                    for r in &program.rules {
                        if let asp::Head::Basic(a) | asp::Head::Choice(a) = &r.head {
                            preds.insert((a.predicate_symbol.clone(), a.terms.len()));
                        }
                        for f in &r.body.formulas {
                            if let asp::AtomicFormula::Literal(l) = f {
                                preds.insert((l.atom.predicate_symbol.clone(), l.atom.terms.len()));
                            }
                        }
                    }
                }
                let mut covered: BTreeSet<(String, usize)> = BTreeSet::new();
                for f in p.formulas.iter().filter(|f| f.name.contains("transition_axiom")) {
                    let mut sig = crate::ir::Signature::default();
                    crate::ir::lower(&f.formula).signature(&mut sig);
                    for (n, a) in &sig.preds {
                        if let Some(base) = n.strip_prefix('h') {
                            covered.insert((base.to_string(), *a));
                        }
                    }
                }
                if covered != preds {
                    return Outcome::fail(
                        "transition-axiom-coverage",
                        format!("C12: transition axioms cover {covered:?}, the programs' predicates are {preds:?}\n{}", built.description),
                    );
                }
            }
            let checked = match tff::check(&p.text) {
                Ok(c) => c,
                Err(_) => return Outcome::skip("problem not well-formed (reported by C09)"),
            };
            // the chain
            let mut links: Vec<(String, String)> = vec![];
            for e in &checked.entries {
                if let Entry::Logic { name, role, formula } = e {
                    if name.starts_with("symbol_order_") {
                        if role != "axiom" {
                            return Outcome::fail("symbol-order-role", format!("C12: {name} is not an axiom"));
                        }
                        match formula {
                            tff::Formula::Atom(p, args) if p == "p__less__" && args.len() == 2 => {
                                let get = |t: &tff::Term| match t {
                                    tff::Term::App(f, a) if f == "f__symbolic__" && a.len() == 1 => match &a[0] {
                                        tff::Term::App(c, z) if z.is_empty() => Some(c.clone()),
                                        _ => None,
                                    },
                                    _ => None,
                                };
                                match (get(&args[0]), get(&args[1])) {
                                    (Some(a), Some(b)) => links.push((a, b)),
                                    _ => return Outcome::fail("symbol-order-shape", format!("C12: unexpected ordering axiom {name}")),
                                }
                            }
                            _ => return Outcome::fail("symbol-order-shape", format!("C12: unexpected ordering axiom {name}")),
                        }
                    }
                }
            }
            for (a, b) in &links {
                if !declared_set.contains(a) || !declared_set.contains(b) {
                    return Outcome::fail(
                        "symbol-order-undeclared",
                        format!("C12: ordering axiom over undeclared constants {a}, {b}\n{}", built.description),
                    );
                }
            }
            // how a declared symbolic constant is read, decided from the task's source files and not
            // by inverting anthem's renaming: the constant `c` can stand for the source symbol `c`
            // (unless `c` is a 0-ary predicate of this problem) or, if it is written `b__s`, for the
            // source symbol `b`. Any injective reading under which all ordering axioms are true is
            // accepted; the first candidate of each constant is used for the report otherwise.
            let candidates: Vec<Vec<String>> = declared
                .iter()
                .map(|c| {
                    let mut v = vec![];
                    if let Some(b) = c.strip_suffix("__s") {
                        if built.source_symbols.contains(b) {
                            v.push(b.to_string());
                        }
                    }
                    if built.source_symbols.contains(c) && !zero_ary.contains(c) {
                        v.push(c.clone());
                    }
                    v
                })
                .collect();
            if let Some(i) = candidates.iter().position(|v| v.is_empty()) {
                return Outcome::fail(
                    "declared-constant-without-source",
                    format!("C12: the declared symbolic constant {} is not the (renamed) name of a symbolic constant of the input files {:?}\n{}", declared[i], built.source_symbols, built.description),
                );
            }
            let mut reading: Option<BTreeMap<String, String>> = None;
            let mut injective_exists = false;
            let total: usize = candidates.iter().map(|v| v.len()).product();
            for mut code in 0..total.min(4096) {
                let mut m: BTreeMap<String, String> = BTreeMap::new();
                for (c, v) in declared.iter().zip(&candidates) {
                    m.insert(c.clone(), v[code % v.len()].clone());
                    code /= v.len();
                }
                let distinct: BTreeSet<&String> = m.values().collect();
                if distinct.len() != declared.len() {
                    continue;
                }
                injective_exists = true;
                if links.iter().all(|(a, b)| Val::Sym(m[a].clone()) < Val::Sym(m[b].clone())) {
                    reading = Some(m);
                    break;
                }
            }
            if !injective_exists {
                return Outcome::fail(
                    "renaming-not-injective",
                    format!("C12: the declared symbolic constants {declared:?} cannot stand for distinct symbolic constants of the input files {:?}\n{}", built.source_symbols, built.description),
                );
            }
            let fallback: BTreeMap<String, String> = declared.iter().zip(&candidates).map(|(c, v)| (c.clone(), v[0].clone())).collect();
            let failed_reading = reading.is_none();
            let reading = reading.unwrap_or(fallback);
            let source_of = |c: &str| -> String { reading[c].clone() };
            for (a, b) in &links {
                if !failed_reading {
                    break;
                }
                let (sa, sb) = (Val::Sym(source_of(a)), Val::Sym(source_of(b)));
                if !(sa < sb) {
                    return Outcome::fail(
                        "symbol-order-false",
                        format!(
                            "C12: the ordering axiom p__less__({a}, {b}) is false in the standard interpretation: {a} stands for the symbol {}, {b} for {}, and {} < {} does not hold\n{}",
                            source_of(a), source_of(b), source_of(a), source_of(b), built.description
                        ),
                    );
                }
            }
            // connected chain covering all constants: with all links true, n-1 links over n constants
            // forming a path is equivalent to: every constant except the least has exactly one
            // incoming link from its predecessor in the sorted order
            if declared.len() >= 2 {
                let mut sorted: Vec<String> = declared.clone();
                sorted.sort_by_key(|c| Val::Sym(source_of(c)));
                let expected: BTreeSet<(String, String)> = sorted.windows(2).map(|w| (w[0].clone(), w[1].clone())).collect();
                let got: BTreeSet<(String, String)> = links.iter().cloned().collect();
                // any set of true links whose transitive closure orders all constants is acceptable;
                // check coverage: the undirected graph of links must connect all constants
                let mut comp: BTreeMap<String, usize> = declared.iter().enumerate().map(|(i, c)| (c.clone(), i)).collect();
                for (a, b) in &got {
                    let (ca, cb) = (comp[a], comp[b]);
                    if ca != cb {
                        for v in comp.values_mut() {
                            if *v == cb {
                                *v = ca;
                            }
                        }
                    }
                }
                let roots: BTreeSet<usize> = comp.values().cloned().collect();
                // a connected set of true "<" links need not order all pairs (a<c, b<c): require a path
                let is_path = expected.is_subset(&got);
                if roots.len() != 1 || !is_path {
                    return Outcome::fail(
                        "symbol-order-incomplete",
                        format!("C12: the ordering axioms {got:?} do not chain all symbolic constants {sorted:?}\n{}", built.description),
                    );
                }
                nontrivial = true;
                labels.push(format!("symbols={}", declared.len().min(6)));
                if declared.iter().any(|c| source_of(c) != *c) {
                    labels.push("renamed-symbol".to_string());
                }
            } else if !links.is_empty() {
                return Outcome::fail("symbol-order-undeclared", "C12: ordering axioms without two constants".to_string());
            }
            // transition axioms
            if built.strong {
                let preds: BTreeSet<(String, usize)> = match &built.strong_programs {
                    Some((left, right)) => left
                        .predicates()
                        .into_iter()
                        .chain(right.predicates())
                        .map(|q| (q.symbol, q.arity))
                        .collect(),
                    _ => BTreeSet::new(),
                };
                let plist: Vec<(String, usize)> = preds.iter().cloned().collect();
                let pool: Vec<Val> = vec![Val::Inf, Val::Int(0), Val::Int(1), Val::Sym("a".into()), Val::Sup];
                let (h, t) = g::build_interp(&case.raw, &plist, &[], &pool);
                let classical = ht_as_classical(&h, &t);
                let mut covered: BTreeSet<(String, usize)> = BTreeSet::new();
                for f in p.formulas.iter().filter(|f| f.name.contains("transition_axiom")) {
                    if f.conjecture {
                        return Outcome::fail("transition-axiom-role", format!("C12: {} is a conjecture", f.name));
                    }
                    let fm = crate::ir::lower(&f.formula);
                    // exact mode: the guard hp(X...) yields the candidate tuples, so wide predicates
                    // are no problem; an undecided verdict is never a violation
                    let ev = Ev::classical(&classical, &pool, true).with_budget(2_000_000);
                    let verdict = ev.sat(&fm, &mut Env::new(), World::T);
                    if verdict.is_none() {
                        labels.push("transition-axiom-undecided".to_string());
                    }
                    if verdict == Some(false) {
                        return Outcome::fail(
                            "transition-axiom-false",
                            format!(
                                "C12: transition axiom {} = {} is false in I_(H,T) with H subset-of T\n  H: {}\n  T: {}\n{}",
                                f.name, f.formula, h.json(), t.json(), built.description
                            ),
                        );
                    }
                    for q in f.formula.predicates() {
                        if let Some(base) = q.symbol.strip_prefix('h') {
                            covered.insert((base.to_string(), q.arity));
                        }
                    }
                }
                if covered != preds {
                    return Outcome::fail(
                        "transition-axiom-coverage",
                        format!("C12: transition axioms cover {covered:?}, the programs' predicates are {preds:?}\n{}", built.description),
                    );
                }
                if h != t && !preds.is_empty() {
                    nontrivial = true;
                    labels.push("transition".to_string());
                }
            }
            // everything else that is an axiom and not from the input must be a preamble axiom
            let preamble = crate::checks::c06::preamble();
            let preamble_names: BTreeSet<String> = tff::parse(&preamble)
                .map(|es| es.iter().map(|e| entry_name(e).to_string()).collect())
                .unwrap_or_default();
            for e in &checked.entries {
                let n = entry_name(e);
                let from_input = p.formulas.iter().any(|f| f.name == n);
                let auto = preamble_names.contains(n)
                    || n.starts_with("predicate_")
                    || n.starts_with("type_symbol_")
                    || n.starts_with("type_function_constant_")
                    || n.starts_with("symbol_order_");
                if !from_input && !auto {
                    return Outcome::fail(
                        "unknown-auto-axiom",
                        format!("C12: formula {n} stems neither from the task nor from the known auto-generated families"),
                    );
                }
            }
            key.push_str(&format!("{declared:?}{links:?}"));
        }
        labels.sort();
        labels.dedup();
        Outcome::pass(nontrivial, hash64(&key)).labels(labels).readable(built.description.clone())
    }
    fn describe(&self, case: &OwnCase) -> Value {
        json!({"task": case_json(&case.task), "raw": raw_json(&case.raw)})
    }
    fn from_replay(&self, j: &Value) -> Option<OwnCase> {
        Some(OwnCase {
            task: case_from_json(&j["task"])?,
            raw: raw_from_json(&j["raw"])?,
        })
    }
}

// ---------------------------------------------------------------------------------------
// C12: the preamble itself, evaluated under the standard interpretation on windows

pub struct Preamble;

#[derive(Clone, Debug)]
pub struct PreambleCase {
    pub center: i64,
    pub syms: Vec<String>,
}

impl Check for Preamble {
    type Case = PreambleCase;
    fn name(&self) -> &'static str {
        "preamble"
    }
    fn shards(&self) -> usize {
        4
    }
    fn cases(&self, tier: Tier) -> usize {
        tier.pick(300, 6_000)
    }
    fn strategy(&self, _tier: Tier) -> BoxedStrategy<PreambleCase> {
        (
            prop_oneof![Just(0i64), -5i64..5, any::<i32>().prop_map(|x| x as i64), Just(i64::MAX - 3), Just(i64::MIN + 3)],
            proptest::collection::vec("[a-z][a-zA-Z0-9_]{0,3}", 1..4),
        )
            .prop_map(|(center, syms)| PreambleCase { center, syms })
            .boxed()
    }
    fn rule(&self) -> String {
        "the preamble of /repo (standard_interpretation.p) is read by the strict TFF reader and every axiom is evaluated under the standard interpretation of its symbols with all quantifiers relativised to a window: #inf, #sup, the integers center-2..center+2 for a generated center (small, 32-bit, near the 64-bit limits) and generated symbolic constants; a false instance is a violation; non-trivial = every case; distinct by window".into()
    }
    fn run(&self, case: &PreambleCase) -> Outcome {
        let text = crate::checks::c06::preamble();
        let checked = match tff::check(&text) {
            Ok(c) => c,
            Err(e) => return Outcome::fail(format!("preamble-rejected:{}", e.class), format!("C12: the preamble is not valid TFF: {}", e.message)),
        };
        let lowered = match tff::lower_all(&checked, &BTreeMap::<String, ConstKind>::new()) {
            Ok(l) => l,
            Err(e) => return Outcome::fail("preamble-unreadable", format!("C12: {e}")),
        };
        let mut window: Vec<Val> = vec![Val::Inf];
        for d in -2i128..=2 {
            window.push(Val::Int(case.center as i128 + d));
        }
        let mut syms: Vec<String> = case.syms.clone();
        syms.sort();
        syms.dedup();
        window.extend(syms.iter().cloned().map(Val::Sym));
        window.push(Val::Sup);
        let interp = Interp::default();
        for (name, role, f) in &lowered {
            if role != "axiom" {
                return Outcome::fail("preamble-role", format!("C12: preamble formula {name} has role {role}"));
            }
            let ev = Ev::classical(&interp, &window, false);
            match ev.sat(f, &mut Env::new(), World::T) {
                Some(true) => {}
                other => {
                    return Outcome::fail(
                        format!("preamble-axiom-false:{name}"),
                        format!("C12: preamble axiom {name} evaluates to {other:?} under the standard interpretation on the window {window:?}"),
                    );
                }
            }
        }
        Outcome::pass(true, hash64(&format!("{window:?}")))
    }
    fn describe(&self, case: &PreambleCase) -> Value {
        json!({"center": case.center, "syms": case.syms})
    }
    fn from_replay(&self, j: &Value) -> Option<PreambleCase> {
        Some(PreambleCase {
            center: j["center"].as_i64()?,
            syms: j["syms"].as_array()?.iter().map(|x| x.as_str().unwrap().to_string()).collect(),
        })
    }
}

#[allow(dead_code)]
fn unused(_: Flags) {}

// ---------------------------------------------------------------------------------------
// C09: problems of tasks with a proof outline (definitions, lemmas, inductive lemmas)

pub struct WithOutline;

#[derive(Clone, Debug)]
pub struct OutlineCase {
    pub task: Vec<u16>,
    pub outline: Vec<u16>,
}

impl Check for WithOutline {
    type Case = OutlineCase;
    fn name(&self) -> &'static str {
        "well-formed-with-outline"
    }
    fn cases(&self, tier: Tier) -> usize {
        tier.pick(15_000, 300_000)
    }
    fn strategy(&self, _tier: Tier) -> BoxedStrategy<OutlineCase> {
        (gt::choices(180), gt::choices(80)).prop_map(|(task, outline)| OutlineCase { task, outline }).boxed()
    }
    fn rule(&self) -> String {
        "external task valid by construction with a generated proof outline (1-4 entries: definitions, lemmas with free or quantified variables and without predicates, inductive lemmas whose induction variable is re-bound inside or shares its name with a general variable; every direction annotation) x flags; oracle as in part well-formed: every emitted problem, including the *_outline_* problems with base cases and inductive steps, passes the strict TFF reader and type checker, and problem names are distinct; non-trivial = an outline problem was emitted; distinct by problem text".into()
    }
    fn run(&self, case: &OutlineCase) -> Outcome {
        let mut c = Chooser::new(case.task.clone());
        let task = gt::external_task(&mut c);
        let flags = gt::flags(&mut c);
        let mut oc = Chooser::new(case.outline.clone());
        let entries = crate::checks::c13::outline(&mut oc, &task);
        let spec = fol::Specification {
            formulas: entries.iter().map(|e| e.formula.clone()).collect(),
        };
        let description = format!(
            "{}\n  outline: {}\n  flags: {}",
            describe_external(&task),
            safe_print::specification(&spec, &Style::plain()),
            flags.describe()
        );
        let problems = match ops::external_problems(&task, &spec, &flags, false) {
            Ok((p, _)) => p,
            Err(_) => return Outcome::skip("task with outline refused (reported by C13)"),
        };
        let mut key = String::new();
        let mut names = BTreeSet::new();
        let mut outline_problems = 0;
        for p in &problems {
            if !names.insert(p.name.clone()) {
                return Outcome::fail("duplicate-problem-name", format!("C09: two problems are named {}\n{description}", p.name));
            }
            if let Err((sig, msg)) = check_problem(p) {
                return Outcome::fail(sig, format!("C09: {msg}\n{description}\n--- problem text ---\n{}", tail(&p.text)));
            }
            if p.name.contains("outline") {
                outline_problems += 1;
            }
            key.push_str(&p.text[p.text.len().saturating_sub(300)..]);
        }
        Outcome::pass(outline_problems > 0, hash64(&key)).label(format!("outline-problems={}", outline_problems.min(6))).readable(description)
    }
    fn describe(&self, case: &OutlineCase) -> Value {
        json!({"task": case.task, "outline": case.outline})
    }
    fn from_replay(&self, j: &Value) -> Option<OutlineCase> {
        let v = |k: &str| -> Option<Vec<u16>> { Some(j[k].as_array()?.iter().map(|x| x.as_u64().unwrap() as u16).collect()) };
        Some(OutlineCase { task: v("task")?, outline: v("outline")? })
    }
}

// ---------------------------------------------------------------------------------------
// C09: whatever identifier the input grammars accept, the emitted problems are well-formed

pub struct AcceptedNames;

#[derive(Clone, Debug)]
pub struct NameCase {
    pub ident: String,
    pub role: u8,
    pub simplify: bool,
}

pub const NAME_ROLES: [&str; 5] = ["program-term", "program-predicate", "specification-term", "placeholder", "user-guide-predicate"];

/// the input files of a small task that uses the identifier in the given role:
/// (left program or specification, right program, user guide) - strong equivalence without a user guide
pub fn name_task(ident: &str, role: u8) -> (String, String, Option<String>, bool) {
    // predicates and placeholders start with a lower-case letter: adapt the first letter to the role
    let adapted: String;
    let ident = if matches!(role % 5, 1 | 3 | 4) {
        let at = ident.find(|c: char| c != '_').unwrap_or(0);
        adapted = format!("{}{}", &ident[..at], ident[at..].chars().enumerate().map(|(i, c)| if i == 0 { c.to_ascii_lowercase() } else { c }).collect::<String>());
        adapted.as_str()
    } else {
        ident
    };
    let upper = ident.trim_start_matches('_').chars().next().is_some_and(|c| c.is_uppercase());
    match role % 5 {
        0 => (format!("p({ident}) :- q({ident}).\n"), format!("p({ident}) :- q({ident}), not r({ident}).\n"), None, false),
        1 => (format!("{ident}(X) :- q(X).\n"), format!("{ident}(X) :- q(X), q(X).\n"), None, false),
        2 => {
            let spec = if upper {
                format!("spec: forall {ident} (p({ident}) <-> q({ident})).\n")
            } else {
                format!("spec: forall X (p(X) <-> q(X) and X != {ident}).\n")
            };
            let program = if upper { format!("p({ident}) :- q({ident}).\n") } else { format!("p(X) :- q(X), X != {ident}.\n") };
            (spec, program, Some("input: q/1.\noutput: p/1.\n".to_string()), true)
        }
        3 => (
            format!("p(X) :- q(X), X < {ident}.\n"),
            format!("p(X) :- q(X), {ident} > X.\n"),
            Some(format!("input: {ident} -> integer.\ninput: q/1.\noutput: p/1.\n")),
            false,
        ),
        _ => (
            format!("p(X) :- {ident}(X).\n"),
            format!("p(X) :- {ident}(X), {ident}(X).\n"),
            Some(format!("input: {ident}/1.\noutput: p/1.\n")),
            false,
        ),
    }
}

impl Check for AcceptedNames {
    type Case = NameCase;
    fn name(&self) -> &'static str {
        "accepted-identifiers"
    }
    fn cases(&self, tier: Tier) -> usize {
        tier.pick(15_000, 300_000)
    }
    fn strategy(&self, _tier: Tier) -> BoxedStrategy<NameCase> {
        (crate::generators::text::candidate_identifier(), 0u8..5, any::<bool>()).prop_map(|(ident, role, simplify)| NameCase { ident, role, simplify }).boxed()
    }
    fn rule(&self) -> String {
        "a candidate identifier (0-3 leading underscores, a letter or digit, a short body; in a third of the cases with a character outside the documented shapes - prime, dash, $, @, non-ASCII letter, double underscore - at the front, inside or at the end) used as program variable/symbol, program predicate, specification term, placeholder or user-guide predicate of a two-line task; the input grammars decide whether the files are accepted; oracle: every problem of an accepted task passes the strict TFF reader and type checker (same signatures as part well-formed); non-trivial = accepted identifier that is not just a letter followed by lower-case letters (digits, capitals or underscores inside, leading underscore, or anything else the grammars let through); distinct by identifier + role".into()
    }
    fn run(&self, case: &NameCase) -> Outcome {
        let (left, right, ug, left_is_spec) = name_task(&case.ident, case.role);
        let role = NAME_ROLES[case.role as usize % 5];
        let Ok(right_p) = right.parse::<asp::Program>() else {
            return Outcome::skip("identifier rejected by the grammar");
        };
        let problems: Vec<ProblemData> = match &ug {
            None => {
                let Ok(left_p) = left.parse::<asp::Program>() else {
                    return Outcome::skip("identifier rejected by the grammar");
                };
                anthem::verif::strong(left_p, right_p, true, fol::Direction::Universal, false, case.simplify, true)
            }
            Some(ug) => {
                let Ok(user_guide) = ug.parse::<fol::UserGuide>() else {
                    return Outcome::skip("identifier rejected by the grammar");
                };
                let spec = if left_is_spec {
                    match left.parse::<fol::Specification>() {
                        Ok(s) => either::Either::Right(s),
                        Err(_) => return Outcome::skip("identifier rejected by the grammar"),
                    }
                } else {
                    match left.parse::<asp::Program>() {
                        Ok(p) => either::Either::Left(p),
                        Err(_) => return Outcome::skip("identifier rejected by the grammar"),
                    }
                };
                match anthem::verif::external(spec, right_p, user_guide, crate::ops::empty_outline(), true, fol::Direction::Universal, false, false, case.simplify, true) {
                    Ok((p, _)) => p,
                    Err(_) => return Outcome::skip("task refused"),
                }
            }
        };
        let description = format!("identifier {:?} as {role}\n  left: {left}  right: {right}  user guide: {}", case.ident, ug.clone().unwrap_or_default());
        for p in &problems {
            if let Err((sig, msg)) = check_problem(p) {
                return Outcome::fail(sig, format!("C09: {msg}\n  {description}\n--- problem text ---\n{}", tail(&p.text)));
            }
        }
        // everyday identifiers: a letter followed by lower-case letters
        let plain = case.ident.chars().next().is_some_and(|c| c.is_ascii_alphabetic()) && case.ident.chars().skip(1).all(|c| c.is_ascii_lowercase());
        Outcome::pass(!plain, hash64(&format!("{}|{role}", case.ident)))
            .readable(description)
            .label(format!("role={role}"))
            .label(if plain { "plain" } else { "unusual-but-accepted" })
    }
    fn describe(&self, case: &NameCase) -> Value {
        json!({"ident": case.ident, "role": case.role, "simplify": case.simplify})
    }
    fn from_replay(&self, j: &Value) -> Option<NameCase> {
        Some(NameCase { ident: j["ident"].as_str()?.to_string(), role: j["role"].as_u64()? as u8, simplify: j["simplify"].as_bool()? })
    }
}

// ---------------------------------------------------------------------------------------
// the text of a problem against its syntax tree (used by C02 / C03 / C19 on a sample of their cases)

/// Does every formula of the problem, as its TPTP text says it, have the truth value of its syntax tree under
/// the interpretation? The semantic oracles of C02, C03 and C19 judge the hooked syntax trees; what the prover
/// gets is the text. Some(description) on a disagreement; None when they agree or nothing definite can be said
/// (text the strict reader rejects is C09's business).
pub fn text_disagrees(p: &ProblemData, i: &Interp, pool: &[Val], budget: i64) -> Option<String> {
    let checked = tff::check(&p.text).ok()?;
    let mut constants: BTreeMap<String, ConstKind> = BTreeMap::new();
    for f in &p.formulas {
        let mut sig = crate::ir::Signature::default();
        crate::ir::lower(&f.formula).signature(&mut sig);
        for s in sig.syms {
            constants.insert(s.clone(), ConstKind::Symbol(s));
        }
        for c in f.formula.function_constants() {
            let suffix = match c.sort {
                fol::Sort::General => "g",
                fol::Sort::Integer => "i",
                fol::Sort::Symbol => "s",
            };
            constants.insert(format!("{}_{suffix}", c.name), ConstKind::Placeholder(c.name.clone()));
        }
    }
    let lowered = tff::lower_all(&checked, &constants).ok()?;
    for f in &p.formulas {
        let Some((_, role, text_f)) = lowered.iter().find(|(name, _, _)| *name == f.name) else {
            return Some(format!("formula {} of problem {} is missing from the text", f.name, p.name));
        };
        if (role == "conjecture") != f.conjecture {
            return Some(format!("formula {} of problem {} has role {role} in the text", f.name, p.name));
        }
        let tree_f = crate::ir::lower(&f.formula);
        // the rendering is a transliteration: the comparisons of the text are those of the tree, relation
        // by relation (a chain of the tree is a conjunction of binary comparisons in the text)
        fn relations(f: &crate::ir::Fm, out: &mut Vec<u8>) {
            use crate::ir::Fm;
            match f {
                Fm::Cmp(_, guards) => out.extend(guards.iter().map(|g| g.0 as u8)),
                Fm::Not(g) | Fm::Q(_, _, g) => relations(g, out),
                Fm::Bin(_, a, b) => {
                    relations(a, out);
                    relations(b, out);
                }
                _ => {}
            }
        }
        let (mut in_tree, mut in_text) = (vec![], vec![]);
        relations(&tree_f, &mut in_tree);
        relations(text_f, &mut in_text);
        in_tree.sort();
        in_text.sort();
        if in_tree != in_text {
            let line = p.text.lines().find(|l| l.contains(&format!("tff({},", f.name))).unwrap_or("");
            return Some(format!(
                "formula {} of problem {}: the relations of the emitted text ({in_text:?}) are not those of the syntax tree ({in_tree:?}; 0 = equal, 1 = not equal, 2 = less, 3 = less or equal, 4 = greater, 5 = greater or equal)\n  tree: {}\n  text: {line}",
                f.name, p.name, f.formula
            ));
        }
        let a = Ev::classical(i, pool, true).with_budget(budget).sat(&tree_f, &mut Env::new(), World::T);
        let b = Ev::classical(i, pool, true).with_budget(budget).sat(text_f, &mut Env::new(), World::T);
        if let (Some(a), Some(b)) = (a, b) {
            if a != b {
                let line = p.text.lines().find(|l| l.contains(&format!("tff({},", f.name))).unwrap_or("");
                return Some(format!(
                    "formula {} of problem {}: the syntax tree is {a} in the interpretation, the emitted text is {b}\n  tree: {}\n  text: {line}",
                    f.name, p.name, f.formula
                ));
            }
        }
    }
    None
}
