//! C05 — gamma reduces here-and-there satisfaction to classical satisfaction.
use crate::checks::c17::{raw_from_json, raw_json};
use crate::dom::{Interp, Sort};
use crate::eval::{Env, Ev, World};
use crate::generators::fol::{self as g, FolCfg, RawInterp};
use crate::ir::{self, Fm, VarId};
use crate::runner::{Check, Outcome, Tier, hash64};
use crate::safe_print::{self, Style};
use anthem::syntax_tree::fol::sigma_0 as fol;
use anthem::translating::classical_reduction::gamma::Gamma as _;
use proptest::collection::vec;
use proptest::prelude::*;
use serde_json::{Value, json};

#[derive(Clone, Debug)]
pub struct Case {
    pub f: fol::Formula,
    pub raw: RawInterp,
    pub envc: Vec<u16>,
    /// propositional case: evaluate under all 9 pairs H subset-of T over the atoms s and hs
    pub all_pairs: bool,
}

pub struct C05;

fn cfg() -> FolCfg {
    FolCfg {
        preds: vec![
            ("p".into(), 1),
            ("hp".into(), 1),
            ("tp".into(), 1),
            ("q".into(), 2),
            ("s".into(), 0),
            ("hs".into(), 0),
        ],
        gvars: vec!["X".into(), "Y".into()],
        ivars: vec!["X".into(), "N".into()],
        svars: vec!["S".into()],
        syms: vec!["a".into(), "b".into()],
        fcs: vec![("c".into(), Sort::G), ("n".into(), Sort::I), ("k".into(), Sort::S)],
        num_lo: -1,
        num_hi: 2,
        depth: 5,
        max_guards: 2,
        term_depth: 2,
    }
}

/// the classical interpretation I_{H,T}: h-copies take the extents of H, t-copies those of T
pub fn ht_as_classical(h: &Interp, t: &Interp) -> Interp {
    let mut i = Interp {
        preds: Default::default(),
        fcs: t.fcs.clone(),
    };
    for ((n, a), e) in &h.preds {
        i.preds.insert((format!("h{n}"), *a), e.clone());
    }
    for ((n, a), e) in &t.preds {
        i.preds.insert((format!("t{n}"), *a), e.clone());
    }
    i
}

fn interesting(f: &Fm) -> bool {
    match f {
        Fm::Not(g) => has_atom(g) || interesting(g),
        Fm::Bin(c, a, b) => {
            (matches!(c, ir::Conn::Imp | ir::Conn::Rimp | ir::Conn::Iff) && (has_atom(a) || has_atom(b)))
                || interesting(a)
                || interesting(b)
        }
        Fm::Q(_, _, g) => interesting(g),
        _ => false,
    }
}

fn has_atom(f: &Fm) -> bool {
    match f {
        Fm::Atom(..) => true,
        Fm::Not(g) | Fm::Q(_, _, g) => has_atom(g),
        Fm::Bin(_, a, b) => has_atom(a) || has_atom(b),
        _ => false,
    }
}

fn shape(f: &Fm, out: &mut Vec<String>, parent: &str) {
    match f {
        Fm::Not(g) => {
            out.push(format!("{parent}>not"));
            shape(g, out, "not")
        }
        Fm::Bin(c, a, b) => {
            let n = format!("{c:?}");
            out.push(format!("{parent}>{n}"));
            shape(a, out, &n);
            shape(b, out, &n);
        }
        Fm::Q(fa, _, g) => {
            let n = if *fa { "forall" } else { "exists" };
            out.push(format!("{parent}>{n}"));
            shape(g, out, n)
        }
        _ => {}
    }
}

impl Check for C05 {
    type Case = Case;
    fn name(&self) -> &'static str {
        "gamma"
    }
    fn cases(&self, tier: Tier) -> usize {
        tier.pick(800_000, 12_000_000)
    }
    fn strategy(&self, _tier: Tier) -> BoxedStrategy<Case> {
        let c = cfg();
        (
            g::formula(&c),
            g::raw_interp(c.preds.len(), c.fcs.len(), 2, 5),
            vec(any::<u16>(), 6),
        )
            .prop_map(|(f, raw, envc)| Case { f, raw, envc, all_pairs: false })
            .boxed()
    }
    fn rule(&self) -> String {
        "random formula (all connectives, three sorts, predicates p, hp, tp, q, s, hs so that copies of different predicates could collide) x random H subset-of T x assignment; oracle: HT satisfaction (window-relativised Kripke semantics) == classical satisfaction of gamma(F) in I_{H,T}, and the printed gamma(F) (what `translate --with gamma` shows, integer terms nested two deep) reads back as the tree gamma(F); non-trivial = formula has a negation or implication-like connective above an atom and H != T; distinct by formula text + interpretation".into()
    }
    fn exhaustive(&self, _tier: Tier) -> Vec<Case> {
        // every propositional formula of depth <= 2 over the atoms s, hs and the constants
        let atom = |p: &str| {
            fol::Formula::AtomicFormula(fol::AtomicFormula::Atom(fol::Atom {
                predicate_symbol: p.into(),
                terms: vec![],
            }))
        };
        let level0 = vec![
            atom("s"),
            atom("hs"),
            fol::Formula::AtomicFormula(fol::AtomicFormula::Truth),
            fol::Formula::AtomicFormula(fol::AtomicFormula::Falsity),
        ];
        let conns = [
            fol::BinaryConnective::Conjunction,
            fol::BinaryConnective::Disjunction,
            fol::BinaryConnective::Implication,
            fol::BinaryConnective::ReverseImplication,
            fol::BinaryConnective::Equivalence,
        ];
        let next = |prev: &Vec<fol::Formula>| -> Vec<fol::Formula> {
            let mut out = prev.clone();
            for f in prev {
                out.push(g::not(f.clone()));
            }
            for c in &conns {
                for a in prev {
                    for b in prev {
                        out.push(g::bin(c.clone(), a.clone(), b.clone()));
                    }
                }
            }
            out
        };
        let level1 = next(&level0);
        let level2 = next(&level1);
        level2
            .into_iter()
            .map(|f| Case {
                f,
                raw: RawInterp { tuples: vec![], fcs: vec![], in_h: vec![] },
                envc: vec![0],
                all_pairs: true,
            })
            .collect()
    }
    fn run(&self, case: &Case) -> Outcome {
        if case.all_pairs {
            return run_all_pairs(case);
        }
        let c = cfg();
        let src = ir::lower(&case.f);
        let gam = case.f.clone().gamma();
        let gam_ir = ir::lower(&gam);
        let (sig, _) = g::signature_of(&[&case.f]);
        let pool = g::value_pool(&sig, &["zz"]);
        // keep the window small: quantifier nesting is exponential
        let window: Vec<_> = pool.iter().take(9).cloned().chain(pool.iter().rev().take(3).cloned()).collect();
        let fcs: Vec<VarId> = c.fcs.iter().cloned().collect();
        let (h, t) = g::build_interp(&case.raw, &c.preds, &fcs, &pool);
        let free = src.free_vars();
        let envp = g::build_env(&free, &case.envc, &pool);

        // copies: every predicate of gamma(F) is the h- or t-copy of a source predicate
        let mut gsig = ir::Signature::default();
        gam_ir.signature(&mut gsig);
        let mut ssig = ir::Signature::default();
        src.signature(&mut ssig);
        for (n, a) in &gsig.preds {
            let ok = ssig
                .preds
                .iter()
                .any(|(m, b)| a == b && (*n == format!("h{m}") || *n == format!("t{m}")));
            if !ok {
                return Outcome::fail(
                    "copy-names",
                    format!("C05: gamma introduced predicate {n}/{a} that is not the h-/t-copy of a source predicate\n  F: {}\n  gamma(F): {gam}", case.f),
                );
            }
        }
        if gam_ir.free_vars() != free {
            return Outcome::fail(
                "free-variables",
                format!("C05: gamma changed the free variables\n  F: {}\n  gamma(F): {gam}", case.f),
            );
        }
        // what `translate --with gamma` hands to the user is the printed formula: it has to denote gamma(F)
        match gam.to_string().parse::<fol::Formula>() {
            Ok(back) if back == gam => {}
            other => {
                return Outcome::fail(
                    "printed-gamma-differs",
                    format!(
                        "C05: the printed gamma(F) does not read back as gamma(F)\n  F: {}\n  gamma(F), own printer: {}\n  gamma(F), as printed: {gam}\n  read back: {}",
                        safe_print::formula(&case.f, &Style::plain()),
                        safe_print::formula(&gam, &Style::plain()),
                        other.map(|f| safe_print::formula(&f, &Style::plain())).unwrap_or_else(|e| format!("rejected: {e}"))
                    ),
                );
            }
        }

        let ev_ht = Ev::ht(&h, &t, &window, false).with_budget(400_000);
        let mut env = Env::from_pairs(&envp);
        let lhs = ev_ht.sat(&src, &mut env, World::H);
        let cl = ht_as_classical(&h, &t);
        let ev_cl = Ev::classical(&cl, &window, false).with_budget(800_000);
        let mut env = Env::from_pairs(&envp);
        let rhs = ev_cl.sat(&gam_ir, &mut env, World::T);
        let text = safe_print::formula(&case.f, &Style::plain());
        let key = hash64(&format!("{text}|{:?}|{:?}|{:?}", h.preds, t.preds, envp));
        let mut labels = vec![];
        shape(&src, &mut labels, "top");
        labels.sort();
        labels.dedup();
        match (lhs, rhs) {
            (Some(a), Some(b)) if a != b => Outcome::fail(
                "semantic-mismatch",
                format!(
                    "C05: (H,T) |= F is {a} but I_(H,T) |= gamma(F) is {b}\n  F: {text}\n  gamma(F): {gam}\n  H: {}\n  T: {}\n  assignment: {:?}",
                    h.json(), t.json(), envp
                ),
            ),
            (Some(a), Some(_)) => Outcome::pass(interesting(&src) && h != t, key)
                .labels(labels)
                .label(format!("verdict={a}")),
            _ => Outcome::skip("evaluation budget"),
        }
    }
    fn describe(&self, case: &Case) -> Value {
        json!({
            "formula": safe_print::formula(&case.f, &Style::plain()),
            "raw": raw_json(&case.raw),
            "envc": case.envc,
            "all_pairs": case.all_pairs,
        })
    }
    fn from_replay(&self, j: &Value) -> Option<Case> {
        Some(Case {
            f: j["formula"].as_str()?.parse().ok()?,
            raw: raw_from_json(&j["raw"])?,
            envc: j["envc"].as_array()?.iter().map(|x| x.as_u64().unwrap() as u16).collect(),
            all_pairs: j["all_pairs"].as_bool().unwrap_or(false),
        })
    }
}


/// propositional formula under all pairs H subset-of T over the atoms s, hs
fn run_all_pairs(case: &Case) -> Outcome {
    let src = ir::lower(&case.f);
    let gam = case.f.clone().gamma();
    let gam_ir = ir::lower(&gam);
    let atoms = ["s", "hs"];
    let mut distinguishing = 0;
    for t_mask in 0..4u8 {
        for h_mask in 0..4u8 {
            if h_mask & !t_mask != 0 {
                continue;
            }
            let mk = |mask: u8| {
                let mut i = Interp::default();
                for (k, a) in atoms.iter().enumerate() {
                    i.preds.entry((a.to_string(), 0)).or_default();
                    if mask & (1 << k) != 0 {
                        i.insert(a, vec![]);
                    }
                }
                i
            };
            let (h, t) = (mk(h_mask), mk(t_mask));
            let ev = Ev::ht(&h, &t, &[], false);
            let lhs = ev.sat(&src, &mut Env::new(), World::H);
            let cl = ht_as_classical(&h, &t);
            let ev2 = Ev::classical(&cl, &[], false);
            let rhs = ev2.sat(&gam_ir, &mut Env::new(), World::T);
            if lhs != rhs {
                return Outcome::fail(
                    "semantic-mismatch",
                    format!(
                        "C05: (H,T) |= F is {lhs:?} but I_(H,T) |= gamma(F) is {rhs:?}\n  F: {}\n  gamma(F): {gam}\n  H: {}\n  T: {}",
                        case.f,
                        h.json(),
                        t.json()
                    ),
                );
            }
            if h_mask != t_mask {
                distinguishing += 1;
            }
        }
    }
    let text = case.f.to_string();
    Outcome::pass(interesting(&src) && distinguishing > 0, hash64(&format!("exhaustive|{text}"))).label("exhaustive-propositional")
}
