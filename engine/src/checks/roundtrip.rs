//! C14 / C15 — print–parse round trips. Input text always comes from the independent,
//! fully-parenthesising printer (never from anthem's own printer).
use crate::generators::asp::{self as ga, AspCfg};
use crate::generators::fol::{self as gf, FolCfg};
use crate::dom::Sort;
use crate::runner::{Check, Outcome, Tier, hash64};
use crate::safe_print::{self as sp, Style};
use anthem::syntax_tree::asp::mini_gringo as asp;
use anthem::syntax_tree::fol::sigma_0 as fol;
use proptest::collection::vec;
use proptest::prelude::*;
use serde_json::{Value, json};
use std::fmt::{Debug, Display};
use std::str::FromStr;

pub enum Rt<N> {
    Rejected,
    Ok(N, String),
    Fail(&'static str, String),
}

/// text -> t1 -> s1 -> t2 (== t1) -> s2 (== s1)
pub fn roundtrip<N>(kind: &str, text: &str) -> Rt<N>
where
    N: FromStr + Display + PartialEq + Debug,
{
    let Ok(t1) = text.parse::<N>() else {
        return Rt::Rejected;
    };
    let s1 = t1.to_string();
    let t2 = match s1.parse::<N>() {
        Ok(t) => t,
        Err(_) => {
            return Rt::Fail(
                "reparse-rejected",
                format!("{kind}: anthem rejects its own output\n  input : {text:?}\n  parsed: {t1:?}\n  output: {s1:?}"),
            );
        }
    };
    if t2 != t1 {
        return Rt::Fail(
            "tree-changed",
            format!("{kind}: printed text parses to a different tree\n  input : {text:?}\n  output: {s1:?}\n  tree 1: {t1:?}\n  tree 2: {t2:?}"),
        );
    }
    let s2 = t2.to_string();
    if s2 != s1 {
        return Rt::Fail(
            "text-not-stable",
            format!("{kind}: printing twice differs\n  first : {s1:?}\n  second: {s2:?}"),
        );
    }
    Rt::Ok(t1, s1)
}

fn outcome<N>(r: Rt<N>, prop: &str, labels: impl FnOnce(&N) -> (bool, Vec<String>)) -> Outcome {
    match r {
        Rt::Rejected => Outcome::skip("generated text rejected by the parser"),
        Rt::Fail(sig, msg) => Outcome::fail(sig, format!("{prop}: {msg}")),
        Rt::Ok(t, s1) => {
            let (nontrivial, ls) = labels(&t);
            Outcome::pass(nontrivial, hash64(&s1)).labels(ls)
        }
    }
}

// ---------------------------------------------------------------------------------------
// C14

#[derive(Clone, Debug)]
pub enum AspNode {
    /// a recorded text (replays): (kind, text)
    Raw(String, String),
    Term(asp::Term),
    Atom(asp::Atom),
    Element(asp::AtomicFormula),
    Rule(asp::Rule),
    Program(asp::Program),
}

#[derive(Clone, Debug)]
pub struct AspCase {
    pub node: AspNode,
    pub style: Vec<u8>,
}

pub struct C14;

pub fn asp_cfg() -> AspCfg {
    AspCfg {
        preds: vec![("p".into(), 1), ("q".into(), 2), ("s".into(), 0), ("_r".into(), 1), ("notp".into(), 1), ("not_q".into(), 1), ("not_".into(), 0), ("p_1".into(), 3)],
        vars: vec!["X".into(), "Y".into(), "V1".into(), "Abc9".into()],
        syms: vec!["a".into(), "b".into(), "_c".into(), "nota".into(), "a_B1".into()],
        num_lo: -3,
        num_hi: 12,
        term_depth: 4,
        op_weights: [3, 3, 3, 3, 3, 4],
        max_body: 3,
        max_rules: 4,
        exotic_leaf_weight: 3,
    }
}

fn op_name(op: &asp::BinaryOperator) -> &'static str {
    match op {
        asp::BinaryOperator::Add => "+",
        asp::BinaryOperator::Subtract => "-",
        asp::BinaryOperator::Multiply => "*",
        asp::BinaryOperator::Divide => "/",
        asp::BinaryOperator::Modulo => "\\",
        asp::BinaryOperator::Interval => "..",
    }
}

fn term_kind(t: &asp::Term) -> Option<String> {
    match t {
        asp::Term::BinaryOperation { op, .. } => Some(op_name(op).to_string()),
        asp::Term::UnaryOperation { .. } => Some("neg".into()),
        asp::Term::PrecomputedTerm(asp::PrecomputedTerm::Numeral(n)) if *n < 0 => Some("negnum".into()),
        asp::Term::PrecomputedTerm(asp::PrecomputedTerm::Numeral(n)) if *n > 0 => Some("posnum".into()),
        _ => None,
    }
}

fn term_pairs(t: &asp::Term, out: &mut Vec<String>) {
    match t {
        asp::Term::BinaryOperation { op, lhs, rhs } => {
            if let Some(k) = term_kind(lhs) {
                if k != "posnum" {
                    out.push(format!("{}>L:{}", op_name(op), k));
                }
            }
            if let Some(k) = term_kind(rhs) {
                if k != "posnum" {
                    out.push(format!("{}>R:{}", op_name(op), k));
                }
            }
            term_pairs(lhs, out);
            term_pairs(rhs, out);
        }
        asp::Term::UnaryOperation { arg, .. } => {
            if let Some(k) = term_kind(arg) {
                out.push(format!("neg>{k}"));
            }
            term_pairs(arg, out);
        }
        _ => {}
    }
}

fn rule_pairs(r: &asp::Rule, out: &mut Vec<String>) {
    match &r.head {
        asp::Head::Basic(a) => {
            out.push("head:basic".into());
            a.terms.iter().for_each(|t| term_pairs(t, out));
        }
        asp::Head::Choice(a) => {
            out.push("head:choice".into());
            a.terms.iter().for_each(|t| term_pairs(t, out));
        }
        asp::Head::Falsity => out.push("head:falsity".into()),
    }
    if r.body.formulas.is_empty() {
        out.push("body:empty".into());
    }
    for f in &r.body.formulas {
        element_pairs(f, out);
    }
}

fn element_pairs(f: &asp::AtomicFormula, out: &mut Vec<String>) {
    match f {
        asp::AtomicFormula::Literal(l) => {
            out.push(format!("sign:{:?}", l.sign));
            l.atom.terms.iter().for_each(|t| term_pairs(t, out));
        }
        asp::AtomicFormula::Comparison(c) => {
            term_pairs(&c.lhs, out);
            term_pairs(&c.rhs, out);
        }
    }
}

fn finish(mut ls: Vec<String>) -> (bool, Vec<String>) {
    ls.sort();
    ls.dedup();
    let nontrivial = ls.iter().any(|l| l.contains('>'));
    (nontrivial, ls)
}

impl Check for C14 {
    type Case = AspCase;
    fn name(&self) -> &'static str {
        "asp-roundtrip"
    }
    fn cases(&self, tier: Tier) -> usize {
        tier.pick(1_200_000, 20_000_000)
    }
    fn strategy(&self, _tier: Tier) -> BoxedStrategy<AspCase> {
        let c = asp_cfg();
        let node = prop_oneof![
            4 => ga::term(&c).prop_map(AspNode::Term),
            1 => ga::atom(&c).prop_map(AspNode::Atom),
            1 => ga::body_element(&c).prop_map(AspNode::Element),
            3 => ga::rule(&c).prop_map(AspNode::Rule),
            3 => ga::program(&c).prop_map(AspNode::Program),
        ];
        (node, prop_oneof![1 => Just(vec![]), 2 => vec(any::<u8>(), 1..24)])
            .prop_map(|(node, style)| AspCase { node, style })
            .boxed()
    }
    fn rule(&self) -> String {
        "random mini-gringo term/atom/body element/rule/program rendered by the checker's own fully-parenthesising printer with random whitespace, comments and keyword spellings; oracle: parse -> print -> parse gives the identical tree and print is stable; non-trivial = the parsed tree has an operator (or negative numeral) directly below an operator, i.e. a position where the printer's precedence/associativity table decides; distinct by anthem's output text; labels = (parent operator > side:child) pairs".into()
    }
    fn exhaustive(&self, _tier: Tier) -> Vec<AspCase> {
        // every term of depth <= 2 over four leaves, all six binary operators and unary minus
        let leaves = vec![ga::var("X"), ga::num(1), ga::num(-1), ga::sym("a")];
        let ops = [
            asp::BinaryOperator::Add,
            asp::BinaryOperator::Subtract,
            asp::BinaryOperator::Multiply,
            asp::BinaryOperator::Divide,
            asp::BinaryOperator::Modulo,
            asp::BinaryOperator::Interval,
        ];
        let next = |prev: &Vec<asp::Term>| -> Vec<asp::Term> {
            let mut out = prev.clone();
            for t in prev {
                out.push(ga::neg(t.clone()));
            }
            for op in &ops {
                for a in prev {
                    for b in prev {
                        out.push(ga::binop(*op, a.clone(), b.clone()));
                    }
                }
            }
            out
        };
        let l1 = next(&leaves);
        let l2 = next(&l1);
        l2.into_iter().map(|t| AspCase { node: AspNode::Term(t), style: vec![] }).collect()
    }
    fn run(&self, case: &AspCase) -> Outcome {
        let st = Style::from_bytes(case.style.clone());
        match &case.node {
            AspNode::Raw(kind, text) => match kind.as_str() {
                "term" => outcome(roundtrip::<asp::Term>("term", text), "C14", |_| (true, vec![])),
                "atom" => outcome(roundtrip::<asp::Atom>("atom", text), "C14", |_| (true, vec![])),
                "element" => outcome(roundtrip::<asp::AtomicFormula>("body element", text), "C14", |_| (true, vec![])),
                "rule" => outcome(roundtrip::<asp::Rule>("rule", text), "C14", |_| (true, vec![])),
                _ => outcome(roundtrip::<asp::Program>("program", text), "C14", |_| (true, vec![])),
            },
            AspNode::Term(t) => outcome(roundtrip::<asp::Term>("term", &sp::asp_term(t, &st)), "C14", |t| {
                let mut ls = vec![];
                term_pairs(t, &mut ls);
                finish(ls)
            }),
            AspNode::Atom(a) => outcome(roundtrip::<asp::Atom>("atom", &sp::asp_atom(a, &st)), "C14", |a| {
                let mut ls = vec![];
                a.terms.iter().for_each(|t| term_pairs(t, &mut ls));
                finish(ls)
            }),
            AspNode::Element(e) => outcome(
                roundtrip::<asp::AtomicFormula>("body element", &sp::asp_body_element(e, &st)),
                "C14",
                |e| {
                    let mut ls = vec![];
                    element_pairs(e, &mut ls);
                    finish(ls)
                },
            ),
            AspNode::Rule(r) => outcome(roundtrip::<asp::Rule>("rule", &sp::asp_rule(r, &st)), "C14", |r| {
                let mut ls = vec![];
                rule_pairs(r, &mut ls);
                finish(ls)
            }),
            AspNode::Program(p) => outcome(
                roundtrip::<asp::Program>("program", &sp::asp_program(p, &st)),
                "C14",
                |p| {
                    let mut ls = vec![];
                    p.rules.iter().for_each(|r| rule_pairs(r, &mut ls));
                    finish(ls)
                },
            ),
        }
    }
    fn describe(&self, case: &AspCase) -> Value {
        let st = Style::from_bytes(case.style.clone());
        let (kind, text) = match &case.node {
            AspNode::Raw(k, t) => (match k.as_str() { "term" => "term", "atom" => "atom", "element" => "element", "rule" => "rule", _ => "program" }, t.clone()),
            AspNode::Term(t) => ("term", sp::asp_term(t, &st)),
            AspNode::Atom(a) => ("atom", sp::asp_atom(a, &st)),
            AspNode::Element(e) => ("element", sp::asp_body_element(e, &st)),
            AspNode::Rule(r) => ("rule", sp::asp_rule(r, &st)),
            AspNode::Program(p) => ("program", sp::asp_program(p, &st)),
        };
        json!({"kind": kind, "text": text})
    }
    fn from_replay(&self, j: &Value) -> Option<AspCase> {
        // replays carry the recorded text itself (acceptance may change over time)
        let text = j["text"].as_str()?;
        let node = AspNode::Raw(j["kind"].as_str()?.to_string(), text.to_string());
        Some(AspCase { node, style: vec![] })
    }
}

// ---------------------------------------------------------------------------------------
// C15

#[derive(Clone, Debug)]
pub enum FolNode {
    /// a recorded text (replays): (kind, text)
    Raw(String, String),
    IntTerm(fol::IntegerTerm),
    GenTerm(fol::GeneralTerm),
    Formula(fol::Formula),
    Theory(fol::Theory),
    Spec(fol::Specification),
    Guide(fol::UserGuide),
}

#[derive(Clone, Debug)]
pub struct FolCase {
    pub node: FolNode,
    pub style: Vec<u8>,
}

pub struct C15;

pub fn fol_cfg() -> FolCfg {
    FolCfg {
        preds: vec![("p".into(), 1), ("q".into(), 2), ("s".into(), 0), ("_r".into(), 1), ("p_1".into(), 3)],
        gvars: vec!["X".into(), "Y".into(), "V1".into(), "_U".into(), "A_b1".into()],
        ivars: vec!["X".into(), "N".into(), "I1".into()],
        svars: vec!["S".into(), "X".into()],
        syms: vec!["a".into(), "b".into(), "_c".into(), "a_B1".into()],
        fcs: vec![("c".into(), Sort::G), ("n".into(), Sort::I), ("k".into(), Sort::S), ("a".into(), Sort::I)],
        num_lo: -3,
        num_hi: 12,
        depth: 5,
        max_guards: 3,
        term_depth: 3,
    }
}

pub fn annotated(cfg: &FolCfg) -> BoxedStrategy<fol::AnnotatedFormula> {
    (
        prop::sample::select(vec![
            fol::Role::Assumption,
            fol::Role::Spec,
            fol::Role::Lemma,
            fol::Role::Definition,
            fol::Role::InductiveLemma,
        ]),
        prop::sample::select(vec![
            fol::Direction::Universal,
            fol::Direction::Forward,
            fol::Direction::Backward,
        ]),
        prop::sample::select(vec!["", "", "l1", "foo_bar", "_n1", "a"]),
        gf::formula(cfg),
    )
        .prop_map(|(role, direction, name, formula)| fol::AnnotatedFormula {
            role,
            direction,
            name: name.to_string(),
            formula,
        })
        .boxed()
}

pub fn guide_entry(cfg: &FolCfg) -> BoxedStrategy<fol::UserGuideEntry> {
    let preds = cfg.preds.clone();
    prop_oneof![
        2 => prop::sample::select(preds.clone()).prop_map(|(symbol, arity)| fol::UserGuideEntry::InputPredicate(fol::Predicate { symbol, arity })),
        2 => prop::sample::select(preds).prop_map(|(symbol, arity)| fol::UserGuideEntry::OutputPredicate(fol::Predicate { symbol, arity })),
        2 => (prop::sample::select(vec!["n", "a", "_c", "k1"]), prop::sample::select(vec![fol::Sort::General, fol::Sort::Integer, fol::Sort::Symbol]))
            .prop_map(|(name, sort)| fol::UserGuideEntry::PlaceholderDeclaration(fol::PlaceholderDeclaration { name: name.to_string(), sort })),
        2 => annotated(cfg).prop_map(fol::UserGuideEntry::AnnotatedFormula),
    ]
    .boxed()
}

fn conn_name(c: &fol::BinaryConnective) -> &'static str {
    match c {
        fol::BinaryConnective::Conjunction => "and",
        fol::BinaryConnective::Disjunction => "or",
        fol::BinaryConnective::Implication => "->",
        fol::BinaryConnective::ReverseImplication => "<-",
        fol::BinaryConnective::Equivalence => "<->",
    }
}

fn formula_kind(f: &fol::Formula) -> String {
    match f {
        fol::Formula::AtomicFormula(fol::AtomicFormula::Comparison(c)) => {
            let starts_var = matches!(
                c.term,
                fol::GeneralTerm::Variable(_)
                    | fol::GeneralTerm::IntegerTerm(fol::IntegerTerm::Variable(_))
                    | fol::GeneralTerm::SymbolicTerm(fol::SymbolicTerm::Variable(_))
            );
            if starts_var { "cmp-var-first".into() } else { "cmp".into() }
        }
        fol::Formula::AtomicFormula(_) => "atomic".into(),
        fol::Formula::UnaryFormula { .. } => "not".into(),
        fol::Formula::BinaryFormula { connective, .. } => conn_name(connective).into(),
        fol::Formula::QuantifiedFormula { .. } => "quant".into(),
    }
}

fn it_pairs(t: &fol::IntegerTerm, out: &mut Vec<String>) {
    let kind = |t: &fol::IntegerTerm| -> Option<&'static str> {
        match t {
            fol::IntegerTerm::Numeral(n) if *n < 0 => Some("negnum"),
            fol::IntegerTerm::UnaryOperation { .. } => Some("neg"),
            fol::IntegerTerm::BinaryOperation { op, .. } => Some(match op {
                fol::BinaryOperator::Add => "+",
                fol::BinaryOperator::Subtract => "-",
                fol::BinaryOperator::Multiply => "*",
            }),
            _ => None,
        }
    };
    match t {
        fol::IntegerTerm::UnaryOperation { arg, .. } => {
            if let Some(k) = kind(arg) {
                out.push(format!("t:neg>{k}"));
            } else if matches!(**arg, fol::IntegerTerm::Numeral(_)) {
                out.push("t:neg>num".into());
            }
            it_pairs(arg, out);
        }
        fol::IntegerTerm::BinaryOperation { lhs, rhs, .. } => {
            let p = kind(t).unwrap();
            if let Some(k) = kind(lhs) {
                out.push(format!("t:{p}>L:{k}"));
            }
            if let Some(k) = kind(rhs) {
                out.push(format!("t:{p}>R:{k}"));
            }
            it_pairs(lhs, out);
            it_pairs(rhs, out);
        }
        _ => {}
    }
}

fn gt_pairs(t: &fol::GeneralTerm, out: &mut Vec<String>) {
    if let fol::GeneralTerm::IntegerTerm(t) = t {
        it_pairs(t, out)
    }
}

fn formula_pairs(f: &fol::Formula, out: &mut Vec<String>) {
    match f {
        fol::Formula::AtomicFormula(a) => match a {
            fol::AtomicFormula::Atom(a) => a.terms.iter().for_each(|t| gt_pairs(t, out)),
            fol::AtomicFormula::Comparison(c) => {
                if c.guards.len() > 1 {
                    out.push(format!("chain:{}", c.guards.len()));
                }
                gt_pairs(&c.term, out);
                c.guards.iter().for_each(|g| gt_pairs(&g.term, out));
            }
            _ => {}
        },
        fol::Formula::UnaryFormula { formula, .. } => {
            out.push(format!("f:not>{}", formula_kind(formula)));
            formula_pairs(formula, out);
        }
        fol::Formula::QuantifiedFormula { formula, .. } => {
            out.push(format!("f:quant>{}", formula_kind(formula)));
            formula_pairs(formula, out);
        }
        fol::Formula::BinaryFormula {
            connective,
            lhs,
            rhs,
        } => {
            let p = conn_name(connective);
            if !matches!(**lhs, fol::Formula::AtomicFormula(_)) {
                out.push(format!("f:{p}>L:{}", formula_kind(lhs)));
            }
            if !matches!(**rhs, fol::Formula::AtomicFormula(_)) {
                out.push(format!("f:{p}>R:{}", formula_kind(rhs)));
            }
            formula_pairs(lhs, out);
            formula_pairs(rhs, out);
        }
    }
}

impl Check for C15 {
    type Case = FolCase;
    fn name(&self) -> &'static str {
        "fol-roundtrip"
    }
    fn cases(&self, tier: Tier) -> usize {
        tier.pick(600_000, 10_000_000)
    }
    fn strategy(&self, _tier: Tier) -> BoxedStrategy<FolCase> {
        let c = fol_cfg();
        let node = prop_oneof![
            2 => gf::int_term(&c).prop_map(FolNode::IntTerm),
            1 => gf::gen_term(&c).prop_map(FolNode::GenTerm),
            6 => gf::formula(&c).prop_map(FolNode::Formula),
            2 => vec(gf::formula(&c), 0..4).prop_map(|formulas| FolNode::Theory(fol::Theory { formulas })),
            2 => vec(annotated(&c), 0..4).prop_map(|formulas| FolNode::Spec(fol::Specification { formulas })),
            2 => vec(guide_entry(&c), 0..5).prop_map(|entries| FolNode::Guide(fol::UserGuide { entries })),
        ];
        (node, prop_oneof![1 => Just(vec![]), 2 => vec(any::<u8>(), 1..24)])
            .prop_map(|(node, style)| FolCase { node, style })
            .boxed()
    }
    fn rule(&self) -> String {
        "random target-language integer term/general term/formula/theory/specification/user guide rendered by the checker's own fully-parenthesising printer with random sort spellings (X$, X$i, X$integer, X, X$g ...), whitespace and comments; oracle: parse -> print -> parse gives the identical tree and print is stable; non-trivial = the parsed tree has a connective/quantifier/negation directly above a non-atomic formula or above a comparison that starts with a variable, or an operator above an operator/negative numeral in a term; distinct by anthem's output text; labels = (parent > side:child) pairs".into()
    }
    fn run(&self, case: &FolCase) -> Outcome {
        let st = Style::from_bytes(case.style.clone());
        fn fin(mut ls: Vec<String>) -> (bool, Vec<String>) {
            ls.sort();
            ls.dedup();
            let nt = ls.iter().any(|l| l.contains('>'));
            (nt, ls)
        }
        match &case.node {
            FolNode::Raw(kind, text) => match kind.as_str() {
                "integer-term" => outcome(roundtrip::<fol::IntegerTerm>("integer term", text), "C15", |_| (true, vec![])),
                "general-term" => outcome(roundtrip::<fol::GeneralTerm>("general term", text), "C15", |_| (true, vec![])),
                "formula" => outcome(roundtrip::<fol::Formula>("formula", text), "C15", |_| (true, vec![])),
                "specification" => outcome(roundtrip::<fol::Specification>("specification", text), "C15", |_| (true, vec![])),
                "user-guide" => outcome(roundtrip::<fol::UserGuide>("user guide", text), "C15", |_| (true, vec![])),
                _ => outcome(roundtrip::<fol::Theory>("theory", text), "C15", |_| (true, vec![])),
            },
            FolNode::IntTerm(t) => outcome(
                roundtrip::<fol::IntegerTerm>("integer term", &sp::int_term(t, &st)),
                "C15",
                |t| {
                    let mut ls = vec![];
                    it_pairs(t, &mut ls);
                    fin(ls)
                },
            ),
            FolNode::GenTerm(t) => outcome(
                roundtrip::<fol::GeneralTerm>("general term", &sp::gen_term(t, &st)),
                "C15",
                |t| {
                    let mut ls = vec![];
                    gt_pairs(t, &mut ls);
                    fin(ls)
                },
            ),
            FolNode::Formula(f) => outcome(
                roundtrip::<fol::Formula>("formula", &sp::formula(f, &st)),
                "C15",
                |f| {
                    let mut ls = vec![];
                    formula_pairs(f, &mut ls);
                    fin(ls)
                },
            ),
            FolNode::Theory(t) => outcome(
                roundtrip::<fol::Theory>("theory", &sp::theory(t, &st)),
                "C15",
                |t| {
                    let mut ls = vec![];
                    t.formulas.iter().for_each(|f| formula_pairs(f, &mut ls));
                    fin(ls)
                },
            ),
            FolNode::Spec(s) => outcome(
                roundtrip::<fol::Specification>("specification", &sp::specification(s, &st)),
                "C15",
                |s| {
                    let mut ls = vec![];
                    for a in &s.formulas {
                        ls.push(format!("role:{:?}/{:?}/named={}", a.role, a.direction, !a.name.is_empty()));
                        formula_pairs(&a.formula, &mut ls);
                    }
                    fin(ls)
                },
            ),
            FolNode::Guide(g) => outcome(
                roundtrip::<fol::UserGuide>("user guide", &sp::user_guide(g, &st)),
                "C15",
                |g| {
                    let mut ls = vec![];
                    for e in &g.entries {
                        match e {
                            fol::UserGuideEntry::InputPredicate(_) => ls.push("ug:input".into()),
                            fol::UserGuideEntry::OutputPredicate(_) => ls.push("ug:output".into()),
                            fol::UserGuideEntry::PlaceholderDeclaration(p) => {
                                ls.push(format!("ug:placeholder>{:?}", p.sort))
                            }
                            fol::UserGuideEntry::AnnotatedFormula(a) => formula_pairs(&a.formula, &mut ls),
                        }
                    }
                    fin(ls)
                },
            ),
        }
    }
    fn describe(&self, case: &FolCase) -> Value {
        let st = Style::from_bytes(case.style.clone());
        let (kind, text) = match &case.node {
            FolNode::Raw(k, t) => (
                match k.as_str() {
                    "integer-term" => "integer-term",
                    "general-term" => "general-term",
                    "formula" => "formula",
                    "specification" => "specification",
                    "user-guide" => "user-guide",
                    _ => "theory",
                },
                t.clone(),
            ),
            FolNode::IntTerm(t) => ("integer-term", sp::int_term(t, &st)),
            FolNode::GenTerm(t) => ("general-term", sp::gen_term(t, &st)),
            FolNode::Formula(f) => ("formula", sp::formula(f, &st)),
            FolNode::Theory(t) => ("theory", sp::theory(t, &st)),
            FolNode::Spec(s) => ("specification", sp::specification(s, &st)),
            FolNode::Guide(g) => ("user-guide", sp::user_guide(g, &st)),
        };
        json!({"kind": kind, "text": text})
    }
    fn from_replay(&self, j: &Value) -> Option<FolCase> {
        let node = FolNode::Raw(j["kind"].as_str()?.to_string(), j["text"].as_str()?.to_string());
        Some(FolCase { node, style: vec![] })
    }
}

// ---------------------------------------------------------------------------------------
// C15, part 2: everything translate / simplify print can be fed back

use crate::checks::c17::{raw_from_json, raw_json};
use crate::eval::{Env, Ev, World};
use crate::generators::fol::RawInterp;
use crate::ir;
use crate::ops::{self, Strategy as SimpStrategy};
use anthem::translating::classical_reduction::completion::Completion as _;
use anthem::translating::classical_reduction::gamma::Gamma as _;
use anthem::translating::formula_representation::mu::Mu as _;
use anthem::translating::formula_representation::natural::Natural as _;
use anthem::translating::formula_representation::tau_star::TauStar as _;

#[derive(Clone, Debug, PartialEq, Eq)]
pub enum Transform {
    TauStar,
    Natural,
    Mu,
    Gamma,
    Completion,
    Simplify(&'static str, SimpStrategy),
}

impl Transform {
    pub fn name(&self) -> String {
        match self {
            Transform::TauStar => "tau-star".into(),
            Transform::Natural => "natural".into(),
            Transform::Mu => "mu".into(),
            Transform::Gamma => "gamma".into(),
            Transform::Completion => "completion".into(),
            Transform::Simplify(p, s) => format!("simplify:{p}:{}", s.name()),
        }
    }
    pub fn parse(s: &str) -> Option<Transform> {
        Some(match s {
            "tau-star" => Transform::TauStar,
            "natural" => Transform::Natural,
            "mu" => Transform::Mu,
            "gamma" => Transform::Gamma,
            "completion" => Transform::Completion,
            other => {
                let mut it = other.split(':');
                if it.next()? != "simplify" {
                    return None;
                }
                let p = it.next()?;
                let p = ops::PORTFOLIOS.iter().find(|x| **x == p)?;
                Transform::Simplify(p, SimpStrategy::parse(it.next()?)?)
            }
        })
    }
    pub fn all() -> Vec<Transform> {
        let mut v = vec![
            Transform::TauStar,
            Transform::Natural,
            Transform::Mu,
            Transform::Gamma,
            Transform::Completion,
        ];
        for p in ops::PORTFOLIOS {
            for s in ops::STRATEGIES {
                v.push(Transform::Simplify(p, s));
            }
        }
        v
    }
    /// the theory the corresponding command prints for the program (None: command refuses)
    pub fn apply(&self, program: &asp::Program) -> Option<fol::Theory> {
        match self {
            Transform::TauStar => Some(program.clone().tau_star()),
            Transform::Natural => program.clone().natural(),
            Transform::Mu => Some(program.clone().mu()),
            Transform::Gamma => Some(program.clone().mu().gamma()),
            Transform::Completion => program.clone().tau_star().completion(Default::default()),
            Transform::Simplify(p, s) => Some(fol::Theory {
                formulas: program
                    .clone()
                    .tau_star()
                    .formulas
                    .into_iter()
                    .map(|f| ops::simplify(f, p, *s))
                    .collect(),
            }),
        }
    }
}

#[derive(Clone, Debug)]
pub struct OutCase {
    pub program: asp::Program,
    pub transform: Transform,
    pub raw: RawInterp,
}

pub struct C15Outputs;

fn out_cfg() -> AspCfg {
    AspCfg {
        preds: vec![("p".into(), 1), ("q".into(), 2), ("s".into(), 0), ("notp".into(), 1), ("nota".into(), 0), ("not_q".into(), 1), ("_r".into(), 1), ("existsPath".into(), 1), ("forallq".into(), 0), ("andy".into(), 1), ("orx".into(), 0)],
        vars: vec!["X".into(), "Y".into(), "V1".into(), "I".into(), "Z".into(), "N0".into()],
        syms: vec!["a".into(), "_c".into(), "nota".into(), "existsY".into(), "forall_".into(), "and1".into(), "ora".into(), "and".into(), "or".into(), "forall".into(), "exists".into()],
        num_lo: -3,
        num_hi: 5,
        term_depth: 2,
        op_weights: [3, 3, 3, 2, 2, 3],
        max_body: 3,
        max_rules: 3,
        exotic_leaf_weight: 2,
    }
}

/// the oracle shared by the output checks: `theory` is what a command is about to print
fn check_printed_theory(theory: &fol::Theory, what: &str, source: &str, raw: &RawInterp) -> Outcome {
    let s = theory.to_string();
    let label = format!("transform={what}");
    let back: fol::Theory = match s.parse() {
        Ok(t) => t,
        Err(e) => {
            return Outcome::fail(
                "output-rejected",
                format!(
                    "C15: anthem rejects the theory it printed ({what})\n  input: {source}\n  output: {s}\n  error: {}",
                    e.to_string().lines().take(6).collect::<Vec<_>>().join(" | ")
                ),
            );
        }
    };
    let s2 = back.to_string();
    if s2 != s {
        return Outcome::fail("output-not-stable", format!("C15: printing the re-parsed output differs ({what})\n  first : {s}\n  second: {s2}"));
    }
    let nontrivial = s.contains("exists") || s.contains("forall");
    let key = hash64(&s);
    if back == *theory {
        return Outcome::pass(nontrivial, key).label(label).label("same-tree");
    }
    if back.formulas.len() != theory.formulas.len() {
        return Outcome::fail("output-reparses-differently", format!("C15: output re-parses to a different number of formulas\n  output: {s}"));
    }
    for (a, b) in theory.formulas.iter().zip(back.formulas.iter()) {
        let (ia, ib) = (ir::lower(a), ir::lower(b));
        if ia == ib {
            continue;
        }
        let mut sig = ir::Signature::default();
        ia.signature(&mut sig);
        ib.signature(&mut sig);
        let pool = gf::value_pool(&sig, &["zz"]);
        let preds: Vec<(String, usize)> = sig.preds.iter().cloned().collect();
        let fcs: Vec<ir::VarId> = sig.fcs.iter().cloned().collect();
        let (_, t) = gf::build_interp(raw, &preds, &fcs, &pool);
        let window: Vec<_> = pool.iter().take(8).cloned().collect();
        let ev = Ev::classical(&t, &window, false).with_budget(300_000);
        let mut free = ia.free_vars();
        free.extend(ib.free_vars());
        let envp = gf::build_env(&free, &[7, 40000, 20000], &pool);
        let va = ev.sat(&ia, &mut Env::from_pairs(&envp), World::T);
        let vb = ev.sat(&ib, &mut Env::from_pairs(&envp), World::T);
        if let (Some(x), Some(y)) = (va, vb) {
            if x != y {
                return Outcome::fail(
                    "output-changes-meaning",
                    format!("C15: the printed output of {what} denotes a different formula when read back\n  input: {source}\n  tree   : {a:?}\n  printed: {a}\n  re-read: {b:?}\n  values {x} vs {y} in {}", t.json()),
                );
            }
        }
    }
    Outcome::pass(nontrivial, key).label(label).label("different-tree-same-meaning")
}

// ---------------------------------------------------------------------------------------
// C15: what `simplify` and `translate --with gamma` print for hand-written theories

#[derive(Clone, Debug)]
pub struct TheoryOutCase {
    pub formula: fol::Formula,
    /// recorded input text (regression replays): used instead of `formula` when present
    pub text: Option<String>,
    pub transform: Transform,
    pub raw: RawInterp,
}

pub struct C15TheoryOutputs;

fn theory_cfg() -> gf::FolCfg {
    gf::FolCfg {
        preds: vec![("p".into(), 1), ("q".into(), 1), ("r".into(), 2), ("s".into(), 0), ("notp".into(), 1), ("not_q".into(), 1), ("_r".into(), 1), ("existsp".into(), 1), ("forallq".into(), 0)],
        // identifier shapes the grammar accepts: leading underscores, names that are prefixes of each other
        gvars: vec!["X".into(), "Y".into(), "_X".into(), "I".into()],
        ivars: vec!["X".into(), "I".into(), "_I".into(), "N1".into()],
        svars: vec!["S".into(), "_S".into()],
        syms: vec!["a".into(), "_c".into(), "nota".into(), "andy".into(), "existsY".into(), "forallz".into(), "or1".into()],
        fcs: vec![("c".into(), crate::dom::Sort::G), ("n".into(), crate::dom::Sort::I)],
        num_lo: -2,
        num_hi: 3,
        depth: 4,
        max_guards: 2,
        term_depth: 2,
    }
}

impl Check for C15TheoryOutputs {
    type Case = TheoryOutCase;
    fn name(&self) -> &'static str {
        "simplify-output"
    }
    fn cases(&self, tier: Tier) -> usize {
        tier.pick(100_000, 2_000_000)
    }
    fn strategy(&self, _tier: Tier) -> BoxedStrategy<TheoryOutCase> {
        let c = theory_cfg();
        let transforms: Vec<Transform> = Transform::all().into_iter().filter(|t| matches!(t, Transform::Gamma | Transform::Simplify(..))).collect();
        (
            prop_oneof![3 => gf::guarded_formula(&c), 1 => gf::formula(&c)],
            prop::sample::select(transforms),
            gf::raw_interp(c.preds.len(), c.fcs.len(), 2, 4),
        )
            .prop_map(|(formula, transform, raw)| TheoryOutCase { formula, text: None, transform, raw })
            .boxed()
    }
    fn rule(&self) -> String {
        "random target-language formula (guarded and unguarded; variables and constants with leading underscores, names that are prefixes of keywords or of each other, the same name at several sorts) first brought into the parser's image (printed by the independent printer and parsed), then given to gamma or to one of the 9 simplify portfolio/strategy combinations; oracle as in part translate-output: the printed result is accepted, printing is stable, and the re-parsed tree is the same (or at least means the same); non-trivial = the output has a quantifier; distinct by output text".into()
    }
    fn run(&self, case: &TheoryOutCase) -> Outcome {
        let text = case.text.clone().unwrap_or_else(|| sp::formula(&case.formula, &Style::plain()));
        let Ok(input) = format!("{text}.").parse::<fol::Theory>() else {
            return Outcome::skip("generated formula not accepted (outside the parser's image)");
        };
        let out = match &case.transform {
            Transform::Gamma => input.clone().gamma(),
            Transform::Simplify(p, s) => fol::Theory {
                formulas: input.formulas.iter().cloned().map(|f| ops::simplify(f, p, *s)).collect(),
            },
            _ => return Outcome::skip("transformation does not apply to theories"),
        };
        check_printed_theory(&out, &case.transform.name(), &text, &case.raw)
    }
    fn describe(&self, case: &TheoryOutCase) -> Value {
        json!({"formula": sp::formula(&case.formula, &Style::plain()), "transform": case.transform.name(), "raw": raw_json(&case.raw)})
    }
    fn from_replay(&self, j: &Value) -> Option<TheoryOutCase> {
        // a recorded text that anthem no longer accepts is kept as text (the case is then skipped)
        let text = j["formula"].as_str()?.to_string();
        let f: fol::Formula = text.parse().unwrap_or(fol::Formula::AtomicFormula(fol::AtomicFormula::Truth));
        Some(TheoryOutCase {
            formula: f,
            text: Some(text),
            transform: Transform::parse(j["transform"].as_str()?)?,
            raw: raw_from_json(&j["raw"])?,
        })
    }
}

impl Check for C15Outputs {
    type Case = OutCase;
    fn name(&self) -> &'static str {
        "translate-output"
    }
    fn cases(&self, tier: Tier) -> usize {
        tier.pick(150_000, 3_000_000)
    }
    fn strategy(&self, _tier: Tier) -> BoxedStrategy<OutCase> {
        let c = out_cfg();
        (
            ga::program(&c),
            prop::sample::select(Transform::all()),
            gf::raw_interp(2 * c.preds.len(), 0, 2, 4),
        )
            .prop_map(|(program, transform, raw)| OutCase { program, transform, raw })
            .boxed()
    }
    fn rule(&self) -> String {
        "random program (predicates include notp/nota/_r, variables named like the translators' fresh names) x {tau-star, natural, mu, gamma, completion, simplify 3 portfolios x 3 strategies}; oracle: the printed theory is accepted by anthem, printing the re-parsed theory is stable, and the re-parsed theory is the same tree (if the tree differs, it must at least have the same truth value in a random interpretation; a difference in meaning is a violation); non-trivial = output has at least one quantifier and one comparison; distinct by output text".into()
    }
    fn run(&self, case: &OutCase) -> Outcome {
        let Some(theory) = case.transform.apply(&case.program) else {
            return Outcome::skip("transformation refused the program");
        };
        let s = theory.to_string();
        let label = format!("transform={}", case.transform.name());
        let back: fol::Theory = match s.parse() {
            Ok(t) => t,
            Err(e) => {
                return Outcome::fail(
                    "output-rejected",
                    format!(
                        "C15: anthem rejects the theory it printed ({})\n  program: {}\n  output: {s}\n  error: {}",
                        case.transform.name(),
                        sp::asp_program(&case.program, &Style::plain()),
                        e.to_string().lines().take(6).collect::<Vec<_>>().join(" | ")
                    ),
                );
            }
        };
        let s2 = back.to_string();
        if s2 != s {
            return Outcome::fail(
                "output-not-stable",
                format!("C15: printing the re-parsed output differs ({})\n  first : {s}\n  second: {s2}", case.transform.name()),
            );
        }
        let nontrivial = s.contains("exists") || s.contains("forall");
        let key = hash64(&s);
        if back == theory {
            return Outcome::pass(nontrivial, key).label(label).label("same-tree");
        }
        // different tree: compare meanings formula by formula in a random interpretation
        if back.formulas.len() != theory.formulas.len() {
            return Outcome::fail(
                "output-reparses-differently",
                format!("C15: output re-parses to a different number of formulas\n  output: {s}"),
            );
        }
        for (a, b) in theory.formulas.iter().zip(back.formulas.iter()) {
            let (ia, ib) = (ir::lower(a), ir::lower(b));
            if ia == ib {
                continue;
            }
            let mut sig = ir::Signature::default();
            ia.signature(&mut sig);
            ib.signature(&mut sig);
            let pool = gf::value_pool(&sig, &["zz"]);
            let preds: Vec<(String, usize)> = sig.preds.iter().cloned().collect();
            let fcs: Vec<ir::VarId> = sig.fcs.iter().cloned().collect();
            let (_, t) = gf::build_interp(&case.raw, &preds, &fcs, &pool);
            let window: Vec<_> = pool.iter().take(8).cloned().collect();
            let ev = Ev::classical(&t, &window, false).with_budget(300_000);
            let mut free = ia.free_vars();
            free.extend(ib.free_vars());
            let envp = gf::build_env(&free, &[7, 40000, 20000], &pool);
            let va = ev.sat(&ia, &mut Env::from_pairs(&envp), World::T);
            let vb = ev.sat(&ib, &mut Env::from_pairs(&envp), World::T);
            if let (Some(x), Some(y)) = (va, vb) {
                if x != y {
                    return Outcome::fail(
                        "output-changes-meaning",
                        format!(
                            "C15: the printed output of {} denotes a different formula when read back\n  program: {}\n  tree   : {a:?}\n  printed: {a}\n  re-read: {b:?}\n  values {x} vs {y} in {}",
                            case.transform.name(),
                            sp::asp_program(&case.program, &Style::plain()),
                            t.json()
                        ),
                    );
                }
            }
        }
        Outcome::pass(nontrivial, key).label(label).label("different-tree-same-meaning")
    }
    fn describe(&self, case: &OutCase) -> Value {
        json!({
            "program": sp::asp_program(&case.program, &Style::plain()),
            "transform": case.transform.name(),
            "raw": raw_json(&case.raw),
        })
    }
    fn from_replay(&self, j: &Value) -> Option<OutCase> {
        Some(OutCase {
            program: j["program"].as_str()?.parse().ok()?,
            transform: Transform::parse(j["transform"].as_str()?)?,
            raw: raw_from_json(&j["raw"])?,
        })
    }
}

// ---------------------------------------------------------------------------------------
// the target-language front end: formula text in the usual notation is read as the formula it denotes

pub struct FolFrontEnd;

#[derive(Clone, Debug)]
pub struct FolFrontCase {
    pub formula: fol::Formula,
    pub via_cli: bool,
}

impl Check for FolFrontEnd {
    type Case = FolFrontCase;
    fn name(&self) -> &'static str {
        "fol-front-end"
    }
    fn cases(&self, tier: Tier) -> usize {
        tier.pick(150_000, 3_000_000)
    }
    fn strategy(&self, _tier: Tier) -> BoxedStrategy<FolFrontCase> {
        let c = gf::FolCfg { depth: 5, ..fol_cfg() };
        (gf::formula(&c), 0u16..2000).prop_map(|(formula, k)| FolFrontCase { formula, via_cli: k == 0 }).boxed()
    }
    fn rule(&self) -> String {
        "random formula (depth up to 5, all connectives and quantifiers) written by the checker's own printer with as few parentheses as the conventions of the input language require (prefix operators > and > or > arrows; and/or left-associative; chains of -> and of <-> group to the right, chains of <- to the left; different arrows are not mixed without parentheses) - the conventions of the pinned operator table, which no document states; oracle: anthem reads the text as exactly that formula, and (1 in 2000) `anthem translate --with gamma` on the text prints gamma of the tree; non-trivial = the text has at least 6 characters fewer than the fully parenthesised one; distinct by text".into()
    }
    fn run(&self, case: &FolFrontCase) -> Outcome {
        // bring the generated tree into the image of the parser first
        let full = sp::formula(&case.formula, &Style::plain());
        let Ok(f0) = full.parse::<fol::Formula>() else {
            return Outcome::skip("generated formula not accepted");
        };
        let text = sp::formula(&f0, &Style::conventional());
        let parsed: fol::Formula = match text.parse() {
            Ok(f) => f,
            Err(_) => return Outcome::fail("conventional-text-rejected", format!("C15: the formula text is rejected\n  text : {text}\n  meant: {full}")),
        };
        if parsed != f0 {
            return Outcome::fail(
                "text-read-differently",
                format!("C15: the formula text is read as a different formula\n  text : {text}\n  meant: {full}\n  read : {}", sp::formula(&parsed, &Style::plain())),
            );
        }
        if case.via_cli && f0.free_variables().is_empty() {
            if let Some(bin) = crate::cli::anthem_bin() {
                // as a user would write it: a comment before and after the formula, a second formula behind
                let r = crate::cli::run(&bin, &["translate", "--with", "gamma"], Some(&format!("% theory\n\n{text}. % first\n\n% more\n#true.\n")));
                let expected = fol::Theory { formulas: vec![f0.clone(), fol::Formula::AtomicFormula(fol::AtomicFormula::Truth)] }.gamma().to_string();
                if r.code != Some(0) || r.stdout.trim() != expected.trim() {
                    return Outcome::fail(
                        "cli-differs-from-library",
                        format!("C15: `anthem translate --with gamma` on the text differs from gamma of the tree\n  text: {text}\n  exit: {:?}\n  cli : {}\n  lib : {expected}", r.code, r.stdout),
                    );
                }
                // and what it prints denotes that theory
                let tree = fol::Theory { formulas: vec![f0.clone(), fol::Formula::AtomicFormula(fol::AtomicFormula::Truth)] }.gamma();
                if r.stdout.parse::<fol::Theory>().ok().as_ref() != Some(&tree) {
                    return Outcome::fail(
                        "cli-output-reads-differently",
                        format!("C15: the output of `anthem translate --with gamma` does not read back as gamma of the tree\n  text: {text}\n  cli : {}\n  gamma, own printer: {}", r.stdout, sp::theory(&tree, &Style::plain())),
                    );
                }
            }
        }
        Outcome::pass(text.len() + 6 <= full.len(), hash64(&text)).label(format!("via_cli={}", case.via_cli))
    }
    fn describe(&self, case: &FolFrontCase) -> Value {
        json!({"formula": sp::formula(&case.formula, &Style::plain()), "conventional": sp::formula(&case.formula, &Style::conventional()), "via_cli": case.via_cli})
    }
    fn from_replay(&self, j: &Value) -> Option<FolFrontCase> {
        Some(FolFrontCase {
            formula: j["formula"].as_str()?.parse().ok()?,
            via_cli: j["via_cli"].as_bool()?,
        })
    }
}

// ---------------------------------------------------------------------------------------
// C15: whatever identifier the input grammars accept, what anthem prints about it reads back

pub struct AcceptedNamesOutput;

#[derive(Clone, Debug)]
pub struct NameOutCase {
    pub ident: String,
    pub role: u8,
}

const NAME_OUT_ROLES: [&str; 6] = ["program-term", "program-predicate", "theory-term", "theory-predicate", "user-guide", "specification"];

fn reads_back<T: FromStr + Display + PartialEq>(what: &str, tree: &T, ident: &str) -> Option<Outcome> {
    let text = tree.to_string();
    match text.parse::<T>() {
        Ok(back) if back == *tree => None,
        Ok(_) => Some(Outcome::fail(
            format!("accepted-name:tree-changed:{what}"),
            format!("C15: with the accepted identifier {ident:?} the printed {what} reads back as a different tree\n  printed: {text}"),
        )),
        Err(_) => Some(Outcome::fail(
            format!("accepted-name:reparse-rejected:{what}"),
            format!("C15: with the accepted identifier {ident:?} the printed {what} is rejected when read back\n  printed: {text}"),
        )),
    }
}

impl Check for AcceptedNamesOutput {
    type Case = NameOutCase;
    fn name(&self) -> &'static str {
        "accepted-identifiers"
    }
    fn cases(&self, tier: Tier) -> usize {
        tier.pick(20_000, 400_000)
    }
    fn strategy(&self, _tier: Tier) -> BoxedStrategy<NameOutCase> {
        (crate::generators::text::candidate_identifier(), 0u8..6).prop_map(|(ident, role)| NameOutCase { ident, role }).boxed()
    }
    fn rule(&self) -> String {
        "a candidate identifier (0-3 leading underscores, a letter or digit, a short body; in a third of the cases with a character outside the documented shapes - prime, dash, $, @, non-ASCII letter, double underscore) used as term or predicate of a two-rule program, as term or predicate of a theory, in a user guide (predicate and placeholder declarations) or in a specification; the input grammars decide whether the text is accepted; oracle: for an accepted program every translation (tau*, mu, natural, gamma and completion of tau*) prints a theory that reads back as the same tree, and an accepted theory / user guide / specification prints text that reads back as the same tree; non-trivial = accepted identifier that is not just a letter followed by lower-case letters; distinct by identifier + role".into()
    }
    fn run(&self, case: &NameOutCase) -> Outcome {
        let role = NAME_OUT_ROLES[case.role as usize % 6];
        // predicates and placeholders start with a lower-case letter: adapt the first letter to the role
        let at = case.ident.find(|c: char| c != '_').unwrap_or(0);
        let lowered = format!(
            "{}{}",
            &case.ident[..at],
            case.ident[at..].chars().enumerate().map(|(i, c)| if i == 0 { c.to_ascii_lowercase() } else { c }).collect::<String>()
        );
        let id = case.ident.as_str();
        let rejected = || Outcome::skip("identifier rejected by the grammar");
        let failure = match case.role % 6 {
            0 | 1 => {
                let text = if case.role % 6 == 0 {
                    format!("p({id}) :- q({id}), not r({id}).\n{{q({id})}} :- r({id}, 1..3).\n")
                } else {
                    format!("{lowered}(X) :- q(X), not {lowered}(X, 1).\n{lowered}.\n")
                };
                let Ok(program) = text.parse::<asp::Program>() else { return rejected() };
                let tau = program.clone().tau_star();
                let mut failure = reads_back("tau-star theory", &tau, id);
                failure = failure.or_else(|| reads_back("mu theory", &program.clone().mu(), id));
                if let Some(n) = program.clone().natural() {
                    failure = failure.or_else(|| reads_back("natural theory", &n, id));
                }
                failure = failure.or_else(|| reads_back("gamma theory", &tau.clone().gamma(), id));
                if let Some(done) = tau.clone().completion(Default::default()) {
                    failure = failure.or_else(|| reads_back("completion", &done, id));
                }
                failure.or_else(|| reads_back("program", &program, id))
            }
            2 | 3 => {
                let upper = id.trim_start_matches('_').chars().next().is_some_and(|c| c.is_uppercase());
                let text = if case.role % 6 == 3 {
                    format!("forall X ({lowered}(X) -> q(X) or {lowered}).\n")
                } else if upper {
                    format!("forall {id} (p({id}) -> exists {id}$i ({id}$i > 0 and q({id}$i, {id}))).\n")
                } else {
                    format!("forall X (p(X) -> X = {id} or q({id}$i + 1, {id}$g)).\n")
                };
                let Ok(theory) = text.parse::<fol::Theory>() else { return rejected() };
                reads_back("theory", &theory, id)
            }
            4 => {
                let text = format!("input: {lowered}/1.\ninput: {lowered} -> integer.\noutput: p/1.\nassumption: forall X ({lowered}(X) -> X != {lowered}).\n");
                let Ok(ug) = text.parse::<fol::UserGuide>() else { return rejected() };
                reads_back("user guide", &ug, id)
            }
            _ => {
                let text = format!("spec[{lowered}]: forall X (p(X) <-> {lowered}(X)).\nlemma(forward)[{lowered}_1]: {lowered}(1).\n");
                let Ok(spec) = text.parse::<fol::Specification>() else { return rejected() };
                reads_back("specification", &spec, id)
            }
        };
        if let Some(f) = failure {
            return f;
        }
        let plain = id.chars().next().is_some_and(|c| c.is_ascii_alphabetic()) && id.chars().skip(1).all(|c| c.is_ascii_lowercase());
        Outcome::pass(!plain, hash64(&format!("{id}|{role}"))).label(format!("role={role}")).label(if plain { "plain" } else { "unusual-but-accepted" })
    }
    fn describe(&self, case: &NameOutCase) -> Value {
        json!({"ident": case.ident, "role": case.role})
    }
    fn from_replay(&self, j: &Value) -> Option<NameOutCase> {
        Some(NameOutCase { ident: j["ident"].as_str()?.to_string(), role: j["role"].as_u64()? as u8 })
    }
}

// ---------------------------------------------------------------------------------------
// C14: acceptance must not depend on size in a way that printing can cross

pub struct SizeBoundary;

#[derive(Clone, Debug)]
pub struct SizeCase {
    pub template: u8,
    pub max_rules: u32,
}

const COMPACT_RULES: [&str; 6] = [
    "p(X,Y):-q(X),r(Y).",
    "{s(X+1)}:-t(X),not u(X),X!=3.",
    "v(1..3,a).",
    ":-p(X,Y),not not q(X),X<Y.",
    "w(X*2-1,Y/2):-p(X,Y),Y>0.",
    "e(X,Y,Z):-p(X,Y),p(Y,Z),X!=Z,not e(Z,Y,X).",
];

fn repeated(template: &str, n: usize) -> String {
    let mut s = String::with_capacity((template.len() + 1) * n);
    for _ in 0..n {
        s.push_str(template);
        s.push('\n');
    }
    s
}

impl Check for SizeBoundary {
    type Case = SizeCase;
    fn name(&self) -> &'static str {
        "size-boundary"
    }
    fn shards(&self) -> usize {
        2
    }
    fn shrink_steps(&self) -> usize {
        0
    }
    fn cases(&self, tier: Tier) -> usize {
        tier.pick(2, 12)
    }
    fn strategy(&self, tier: Tier) -> BoxedStrategy<SizeCase> {
        let top = tier.pick(20_000, 60_000) as u32;
        (0u8..6, (top * 3 / 4)..top).prop_map(|(template, max_rules)| SizeCase { template, max_rules }).boxed()
    }
    fn rule(&self) -> String {
        "a program of n copies of one compactly written rule (no blanks; 6 templates) for n up to 20 000 (thorough: 60 000) rules, about 1 MB: if the largest size is refused although small sizes are accepted, the largest accepted size is found by bisection; oracle: at the largest accepted size (and at the largest size tried when nothing is refused) the accepted program prints to text that is accepted again and reads back as the same tree - the printed form is longer than the compact source, so a size- or effort-limit in the reader must not sit between the two; non-trivial = every case; distinct by template + size".into()
    }
    fn run(&self, case: &SizeCase) -> Outcome {
        let template = COMPACT_RULES[case.template as usize % COMPACT_RULES.len()];
        let accepts = |n: usize| repeated(template, n).parse::<asp::Program>().ok();
        if accepts(4).is_none() {
            return Outcome::fail("size:template-rejected", format!("C14: the rule {template} is rejected"));
        }
        let top = case.max_rules as usize;
        let mut label = "no-limit-found";
        let (n, program) = match accepts(top) {
            Some(p) => (top, p),
            None => {
                // a limit exists: largest accepted size by bisection
                label = "limit-found";
                let (mut lo, mut hi) = (4usize, top);
                while hi - lo > 1 {
                    let mid = (lo + hi) / 2;
                    if accepts(mid).is_some() { lo = mid } else { hi = mid }
                }
                (lo, accepts(lo).expect("accepted a moment ago"))
            }
        };
        let printed = program.to_string();
        match printed.parse::<asp::Program>() {
            Ok(back) if back == program => Outcome::pass(true, hash64(&format!("{template}|{n}"))).label(label).label(format!("template={}", case.template % 6)),
            Ok(_) => Outcome::fail("size:tree-changed", format!("C14: {n} copies of `{template}` are accepted, the printed program reads back as a different tree")),
            Err(e) => Outcome::fail(
                "size:reparse-rejected",
                format!("C14: {n} copies of `{template}` ({} bytes) are accepted, but the printed program ({} bytes) is rejected: {}", repeated(template, n).len(), printed.len(), e.to_string().chars().take(200).collect::<String>()),
            ),
        }
    }
    fn describe(&self, case: &SizeCase) -> Value {
        json!({"template": case.template, "max_rules": case.max_rules})
    }
    fn from_replay(&self, j: &Value) -> Option<SizeCase> {
        Some(SizeCase { template: j["template"].as_u64()? as u8, max_rules: j["max_rules"].as_u64()? as u32 })
    }
}

// ---------------------------------------------------------------------------------------
// C15: the output of translate on larger programs, fed back through the binary

pub struct LargeOutputs;

#[derive(Clone, Debug)]
pub struct LargeCase {
    pub rules: Vec<asp::Rule>,
    pub transform: u8,
}

impl Check for LargeOutputs {
    type Case = LargeCase;
    fn name(&self) -> &'static str {
        "large-outputs"
    }
    fn shards(&self) -> usize {
        4
    }
    fn shrink_steps(&self) -> usize {
        12
    }
    fn cases(&self, tier: Tier) -> usize {
        tier.pick(24, 400)
    }
    fn strategy(&self, _tier: Tier) -> BoxedStrategy<LargeCase> {
        let c = out_cfg();
        // sizes spread over 16 .. 600 rules
        (prop_oneof![vec(ga::shaped_rule(&c), 16..60), vec(ga::shaped_rule(&c), 60..200), vec(ga::shaped_rule(&c), 200..600)], 0u8..3)
            .prop_map(|(rules, transform)| LargeCase { rules, transform })
            .boxed()
    }
    fn rule(&self) -> String {
        "a generated program of 16-600 rules is given to the real binary: `translate --with tau-star|mu|natural`, then the printed theory to `parse --as theory --output default` and to `translate --with gamma`; oracle: whatever translate printed (exit 0) is accepted again by both commands, and the re-printed theory is the same text - the output is several times longer than the input, so no limit of the reader may sit between the two; non-trivial = the translation succeeded; distinct by program + translation".into()
    }
    fn run(&self, case: &LargeCase) -> Outcome {
        let Some(bin) = crate::cli::anthem_bin() else {
            return Outcome::skip("ANTHEM_BIN not set");
        };
        let program = asp::Program { rules: case.rules.clone() };
        let text = sp::asp_program(&program, &Style::plain());
        let with = ["tau-star", "mu", "natural"][case.transform as usize % 3];
        let first = crate::cli::run(&bin, &["translate", "--with", with], Some(&text));
        if first.timed_out {
            return Outcome::skip("translate did not finish in time");
        }
        if first.code != Some(0) {
            // natural refuses irregular programs; a program the reader refuses is C14's business
            return Outcome::skip("translation refused the program");
        }
        for cmd in [vec!["parse", "--as", "theory", "--output", "default"], vec!["translate", "--with", "gamma"]] {
            let r = crate::cli::run(&bin, &cmd, Some(&first.stdout));
            if r.timed_out {
                return Outcome::skip("a run did not finish in time");
            }
            if r.code != Some(0) {
                return Outcome::fail(
                    "large-output-rejected",
                    format!(
                        "C15: `anthem translate --with {with}` on a program of {} rules ({} bytes) printed {} bytes that `anthem {}` rejects (exit {:?})\n  stderr: {}\n  program starts: {}",
                        case.rules.len(),
                        text.len(),
                        first.stdout.len(),
                        cmd.join(" "),
                        r.code,
                        r.stderr.chars().take(300).collect::<String>(),
                        text.chars().take(300).collect::<String>()
                    ),
                );
            }
            if cmd[0] == "parse" && r.stdout != first.stdout {
                return Outcome::fail(
                    "large-output-not-stable",
                    format!("C15: the output of `translate --with {with}` on a program of {} rules is re-printed differently by `parse --as theory`\n  program starts: {}", case.rules.len(), text.chars().take(300).collect::<String>()),
                );
            }
        }
        Outcome::pass(true, hash64(&format!("{text}|{with}"))).label(format!("with={with}")).label(format!("rules>={}", if case.rules.len() >= 200 { 200 } else if case.rules.len() >= 60 { 60 } else { 16 }))
    }
    fn describe(&self, case: &LargeCase) -> Value {
        json!({"program": sp::asp_program(&asp::Program { rules: case.rules.clone() }, &Style::plain()), "transform": case.transform})
    }
    fn from_replay(&self, j: &Value) -> Option<LargeCase> {
        let p: asp::Program = j["program"].as_str()?.parse().ok()?;
        Some(LargeCase { rules: p.rules, transform: j["transform"].as_u64()? as u8 })
    }
}
