//! C08 — natural and mu translations are HT-equivalent to tau* on every rule they accept.
use crate::asp_ref;
use crate::checks::c01::{program_pool, program_preds, rule_classes};
use crate::checks::c17::{raw_from_json, raw_json};
use crate::eval::{Env, Ev, World};
use crate::generators::asp::{self as ga, AspCfg};
use crate::generators::fol::{self as g, RawInterp};
use crate::ir;
use crate::runner::{Check, Outcome, Tier, hash64};
use crate::safe_print::{self, Style};
use anthem::syntax_tree::asp::mini_gringo as asp;
use anthem::syntax_tree::fol::sigma_0 as fol;
use anthem::translating::formula_representation::mu::Mu as _;
use anthem::translating::formula_representation::natural::Natural as _;
use anthem::translating::formula_representation::tau_star::TauStar as _;
use proptest::prelude::*;
use serde_json::{Value, json};

#[derive(Clone, Debug)]
pub struct Case {
    pub program: asp::Program,
    pub raw: RawInterp,
}

pub struct C08;

fn cfg() -> AspCfg {
    AspCfg {
        preds: vec![("p".into(), 1), ("q".into(), 1), ("r".into(), 2), ("u".into(), 3), ("s".into(), 0)],
        vars: vec!["X".into(), "Y".into(), "N0".into(), "N1".into(), "N0_0".into(), "I".into(), "V1".into()],
        syms: vec!["a".into(), "b".into()],
        num_lo: -2,
        num_hi: 4,
        term_depth: 2,
        // + - * dominate so that many rules are regular; / \ make rules irregular; .. in many places
        op_weights: [6, 5, 4, 1, 1, 5],
        max_body: 3,
        max_rules: 3,
        exotic_leaf_weight: 3,
    }
}

impl Check for C08 {
    type Case = Case;
    fn name(&self) -> &'static str {
        "natural-mu"
    }
    fn cases(&self, tier: Tier) -> usize {
        tier.pick(50_000, 1_200_000)
    }
    fn strategy(&self, _tier: Tier) -> BoxedStrategy<Case> {
        let c = cfg();
        // one program in six: a variable of the first rule is bounded from both sides, by a numeral, an
        // arithmetic term or another plain variable (`X >= 1, X <= N`): bounds say nothing about the sort
        // of the bounded variable - the order is total over numbers, symbols, #inf and #sup
        (ga::shaped_program(&c, 1), g::raw_interp(5, 0, 3, 6), 0u8..6, proptest::collection::vec(any::<u8>(), 4))
            .prop_map(|(mut program, raw, bounded, k)| {
                if bounded == 0 {
                    let r = &mut program.rules[0];
                    let mut vars: Vec<String> = r.variables().into_iter().map(|v| v.0).collect();
                    vars.sort();
                    if !vars.is_empty() {
                        let x = vars[k[0] as usize % vars.len()].clone();
                        let other = vars[k[1] as usize % vars.len()].clone();
                        let bound = |sel: u8| -> asp::Term {
                            match sel % 4 {
                                0 => ga::num((sel / 4) as isize % 4),
                                1 => ga::binop(asp::BinaryOperator::Add, ga::var(&other), ga::num(1)),
                                _ => ga::var(if other == x { "N" } else { &other }),
                            }
                        };
                        let (lo, hi) = if k[0] % 2 == 0 { (asp::Relation::GreaterEqual, asp::Relation::LessEqual) } else { (asp::Relation::Greater, asp::Relation::Less) };
                        r.body.formulas.push(asp::AtomicFormula::Comparison(asp::Comparison { relation: lo, lhs: ga::var(&x), rhs: bound(k[2]) }));
                        r.body.formulas.push(asp::AtomicFormula::Comparison(asp::Comparison { relation: hi, lhs: ga::var(&x), rhs: bound(k[3]) }));
                    }
                }
                Case { program, raw }
            })
            .boxed()
    }
    fn rule(&self) -> String {
        "random program of 1-3 rules mixing regular and irregular shapes (variables inside and outside arithmetic, intervals in heads / right of = / elsewhere, symbols and #inf/#sup next to arithmetic, choice heads with intervals, variables named N0 N1 N0_0; one program in six bounds a variable from both sides by numerals, arithmetic terms or plain variables) x an interpretation (H subset-of T) that is random (extents contain symbols, #inf and #sup at every argument position) or guided (T = closure of the program over random atoms, usually minus one atom; H = T or T minus one atom); oracle: mu() never panics and each of its formulas has the same exact HT truth value as the tau* formula of the same rule; each rule alone, if natural() accepts it, likewise (and agrees with the reference semantics of the rule); the printed mu / natural theory (what `translate` shows) reads back as the translation; non-trivial = the rule is accepted by natural, fires in T and the verdicts are definite; labels = regular/irregular, operator classes".into()
    }
    fn run(&self, case: &Case) -> Outcome {
        if case.program.rules.is_empty() {
            return Outcome::skip("empty program");
        }
        let tau = case.program.clone().tau_star();
        let mu = case.program.clone().mu();
        if mu.formulas.len() != tau.formulas.len() {
            return Outcome::fail("formula-count", "C08: mu and tau* differ in the number of formulas".to_string());
        }
        // what `translate --with mu|natural` shows is the printed theory: it has to denote the translation
        for (name, th) in [("mu", Some(mu.clone())), ("natural", case.program.clone().natural())] {
            let Some(th) = th else { continue };
            match th.to_string().parse::<fol::Theory>() {
                Ok(back) if back == th => {}
                other => {
                    return Outcome::fail(
                        format!("printed-{name}-differs"),
                        format!(
                            "C08: the printed {name} translation does not read back as the translation\n  program: {}\n  as printed: {th}\n  own printer: {}\n  read back: {}",
                            safe_print::asp_program(&case.program, &Style::plain()),
                            safe_print::theory(&th, &Style::plain()),
                            other.map(|b| safe_print::theory(&b, &Style::plain())).unwrap_or_else(|e| format!("rejected: {e}"))
                        ),
                    );
                }
            }
        }
        let pool = program_pool(&case.program);
        let preds = program_preds(&case.program);
        let (mut h, mut t) = g::build_interp(&case.raw, &preds, &[], &pool);
        // half of the interpretations are guided: T is the closure of the program over the random atoms
        // (every rule satisfied) with one atom taken out again in most cases, H is T or T without one more
        // atom - interpretations in which whether a rule holds hinges on a single atom
        let selector: usize = case.raw.tuples.iter().flatten().flatten().map(|x| *x as usize).sum();
        let mut guided = "random";
        if selector % 2 == 1 {
            if let Some(closed) = crate::asp_ref::closure(&case.program, &t, 300) {
                let mut tt = closed;
                for p in &preds {
                    tt.preds.entry(p.clone()).or_default();
                }
                let atoms = tt.atoms();
                if !atoms.is_empty() && (selector / 2) % 4 != 0 {
                    let (k, tuple) = atoms[(selector / 8) % atoms.len()].clone();
                    tt.preds.get_mut(&k).unwrap().remove(&tuple);
                }
                let mut hh = tt.clone();
                let atoms = hh.atoms();
                if !atoms.is_empty() && (selector / 2) % 3 == 0 {
                    let (k, tuple) = atoms[(selector / 32) % atoms.len()].clone();
                    hh.preds.get_mut(&k).unwrap().remove(&tuple);
                }
                h = hh;
                t = tt;
                guided = "closure";
            }
        }
        let mut labels = vec![format!("interpretation={guided}")];
        let mut nontrivial = false;
        let mut keys = String::new();
        let mut definite = 0;
        let eval = |f: &ir::Fm| -> Option<bool> {
            let ev = Ev::ht(&h, &t, &pool, true).with_budget(400_000);
            ev.sat(f, &mut Env::new(), World::H)
        };
        for (i, rule) in case.program.rules.iter().enumerate() {
            let text = safe_print::asp_rule(rule, &Style::plain());
            let tau_f = ir::lower(&tau.formulas[i]);
            let mu_f = ir::lower(&mu.formulas[i]);
            let single = asp::Program { rules: vec![rule.clone()] };
            let natural = single.clone().natural();
            labels.push(if natural.is_some() { "regular".to_string() } else { "irregular".to_string() });
            let v_tau = eval(&tau_f);
            let v_mu = eval(&mu_f);
            if !mu_f.free_vars().is_empty() {
                return Outcome::fail("open-formula", format!("C08: mu formula is not closed: {}", mu.formulas[i]));
            }
            if let (Some(a), Some(b)) = (v_tau, v_mu) {
                if a != b {
                    return Outcome::fail(
                        "mu-vs-tau-star",
                        format!(
                            "C08: the mu formula and the tau* formula of a rule differ in (H,T): tau* {a}, mu {b}\n  rule: {text}\n  tau*: {}\n  mu  : {}\n  H: {}\n  T: {}",
                            tau.formulas[i], mu.formulas[i], h.json(), t.json()
                        ),
                    );
                }
                definite += 1;
            }
            if let Some(nat) = natural {
                if nat.formulas.len() != 1 {
                    return Outcome::fail("formula-count", "C08: natural gives several formulas for one rule".to_string());
                }
                let nat_f = ir::lower(&nat.formulas[0]);
                if !nat_f.free_vars().is_empty() {
                    return Outcome::fail("open-formula", format!("C08: natural formula is not closed: {}", nat.formulas[0]));
                }
                // tau* of the rule alone (its own global variables)
                let tau_single = ir::lower(&single.clone().tau_star().formulas[0]);
                let v_nat = eval(&nat_f);
                let v_ts = eval(&tau_single);
                let reference = asp_ref::rule_sat(rule, &h, &t, &pool);
                if let (Some(a), Some(b)) = (v_ts, v_nat) {
                    if a != b {
                        return Outcome::fail(
                            "natural-vs-tau-star",
                            format!(
                                "C08: the natural formula and the tau* formula of a rule differ in (H,T): tau* {a}, natural {b}\n  rule: {text}\n  tau*   : {}\n  natural: {}\n  H: {}\n  T: {}",
                                single.clone().tau_star().formulas[0], nat.formulas[0], h.json(), t.json()
                            ),
                        );
                    }
                    if asp_ref::rule_fires(rule, &t, &pool) {
                        nontrivial = true;
                        labels.extend(rule_classes(rule));
                    }
                    keys.push_str(&text);
                }
                if let (Some(a), Some(b)) = (reference, v_nat) {
                    if a != b {
                        return Outcome::fail(
                            "natural-vs-reference",
                            format!(
                                "C08: the natural formula disagrees with the reference semantics of the rule: reference {a}, natural {b}\n  rule: {text}\n  natural: {}\n  H: {}\n  T: {}",
                                nat.formulas[0], h.json(), t.json()
                            ),
                        );
                    }
                }
            }
        }
        if definite == 0 {
            return Outcome::skip("no definite verdicts");
        }
        labels.sort();
        labels.dedup();
        Outcome::pass(nontrivial, hash64(&format!("{keys}|{:?}|{:?}", h.preds, t.preds))).labels(labels)
    }
    fn describe(&self, case: &Case) -> Value {
        json!({
            "program": safe_print::asp_program(&case.program, &Style::plain()),
            "raw": raw_json(&case.raw),
        })
    }
    fn from_replay(&self, j: &Value) -> Option<Case> {
        Some(Case {
            program: j["program"].as_str()?.parse().ok()?,
            raw: raw_from_json(&j["raw"])?,
        })
    }
}
