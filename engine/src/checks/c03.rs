//! C03 — strong-equivalence obligations are refuted exactly by HT-distinguishing pairs.
use crate::asp_ref;
use crate::checks::c01;
use crate::checks::c05::ht_as_classical;
use crate::checks::c17::{raw_from_json, raw_json};
use crate::dom::{Interp, Val};
use crate::eval::{Env, Ev, World};
use crate::generators::asp::{self as ga};
use crate::generators::fol::{self as g, RawInterp};
use crate::ir;
use crate::runner::{Check, Outcome, Tier, hash64};
use crate::safe_print::{self, Style};
use anthem::syntax_tree::asp::mini_gringo as asp;
use anthem::syntax_tree::fol::sigma_0 as fol;
use anthem::verif::ProblemData;
use proptest::prelude::*;
use serde_json::{Value, json};

#[derive(Clone, Debug)]
pub struct Case {
    pub left: asp::Program,
    pub right: asp::Program,
    pub sequential: bool,
    pub direction: u8,
    pub mu: bool,
    pub simplify: bool,
    pub eq_break: bool,
    pub raw: RawInterp,
    /// extra tuples put into H only (H not a subset of T) when `break_subset`
    pub extra: RawInterp,
    pub break_subset: bool,
}

pub struct C03;

pub fn direction_of(d: u8) -> fol::Direction {
    match d % 3 {
        0 => fol::Direction::Universal,
        1 => fol::Direction::Forward,
        _ => fol::Direction::Backward,
    }
}

/// three-valued: does the interpretation refute some problem of the family whose name starts with `prefix`?
pub fn refutes(problems: &[ProblemData], prefix: &str, i: &Interp, pool: &[Val], budget: i64) -> Option<bool> {
    let mut unknown = false;
    for p in problems.iter().filter(|p| p.name.starts_with(prefix)) {
        let mut all_axioms: Option<bool> = Some(true);
        for f in p.formulas.iter().filter(|f| !f.conjecture) {
            let ev = Ev::classical(i, pool, true).with_budget(budget);
            match ev.sat(&ir::lower(&f.formula), &mut Env::new(), World::T) {
                Some(false) => {
                    all_axioms = Some(false);
                    break;
                }
                None => all_axioms = None,
                Some(true) => {}
            }
        }
        if all_axioms == Some(false) {
            continue;
        }
        let mut conj_false: Option<bool> = Some(false);
        for f in p.formulas.iter().filter(|f| f.conjecture) {
            let ev = Ev::classical(i, pool, true).with_budget(budget);
            match ev.sat(&ir::lower(&f.formula), &mut Env::new(), World::T) {
                Some(false) => {
                    conj_false = Some(true);
                    break;
                }
                None => conj_false = None,
                Some(true) => {}
            }
        }
        match (all_axioms, conj_false) {
            (Some(true), Some(true)) => return Some(true),
            (_, Some(false)) => {}
            _ => unknown = true,
        }
    }
    if unknown { None } else { Some(false) }
}

/// does the interpretation satisfy all axioms of at least one problem of the family?
pub fn axioms_hold_somewhere(problems: &[ProblemData], prefix: &str, i: &Interp, pool: &[Val]) -> bool {
    problems.iter().filter(|p| p.name.starts_with(prefix)).any(|p| {
        p.formulas.iter().filter(|f| !f.conjecture).all(|f| {
            let ev = Ev::classical(i, pool, true).with_budget(100_000);
            ev.sat(&ir::lower(&f.formula), &mut Env::new(), World::T) == Some(true)
        })
    })
}

fn union(a: &Interp, b: &Interp) -> Interp {
    let mut out = a.clone();
    for (k, e) in &b.preds {
        out.preds.entry(k.clone()).or_default().extend(e.iter().cloned());
    }
    out
}

fn key_of(lt: &str, rt: &str, flags: &str) -> u64 {
    hash64(&format!("{lt}|{rt}|{flags}"))
}

/// the same task through `anthem verify --equivalence strong`: Some(outcome) on a disagreement
fn cli_agrees(case: &Case, problems: &[ProblemData], lt: &str, rt: &str, flags: &str, layout: usize) -> Option<Outcome> {
    let bin = crate::cli::anthem_bin()?;
    // only when the text denotes the generated programs (reading is C14's business)
    if lt.parse::<asp::Program>().ok()? != case.left || rt.parse::<asp::Program>().ok()? != case.right {
        return None;
    }
    let dir = crate::cli::scratch_dir("c03");
    let out = dir.join("out");
    std::fs::create_dir_all(&out).unwrap();
    let mut args: Vec<String> = vec![
        "verify".into(),
        "--equivalence".into(),
        "strong".into(),
        "--no-proof-search".into(),
        "--save-problems".into(),
        out.to_string_lossy().to_string(),
        "--direction".into(),
        match direction_of(case.direction) {
            fol::Direction::Universal => "universal".into(),
            fol::Direction::Forward => "forward".into(),
            fol::Direction::Backward => "backward".into(),
        },
        "--decomposition".into(),
        if case.sequential { "sequential".into() } else { "independent".into() },
        "--formula-representation".into(),
        if case.mu { "mu".into() } else { "tau-star".into() },
    ];
    if !case.simplify {
        args.push("--no-simplify".into());
    }
    if !case.eq_break {
        args.push("--no-eq-break".into());
    }
    let layout = layout % crate::cli::STRONG_LAYOUTS;
    args.extend(crate::cli::strong_layout(&dir, lt, rt, layout));
    let argv: Vec<&str> = args.iter().map(|s| s.as_str()).collect();
    let r = crate::cli::run(&bin, &argv, None);
    let written = crate::cli::snapshot_dir(&out);
    let _ = std::fs::remove_dir_all(&dir);
    if r.timed_out {
        return None;
    }
    let mut expected: Vec<(String, String)> = problems.iter().map(|p| (format!("{}.p", p.name), p.text.clone())).collect();
    expected.sort();
    if r.code != Some(0) || written != expected {
        let differing: Vec<&String> = written.iter().filter(|w| !expected.contains(w)).map(|w| &w.0).collect();
        return Some(Outcome::fail(
            "cli-differs-from-library",
            format!(
                "C03: `verify --equivalence strong` (exit {:?}, argument layout {layout}) wrote other problems than the ones generated in-process for (left, right)\n  left: {lt}\n  right: {rt}\n  flags: {flags}\n  written: {:?}\n  expected: {:?}\n  differing: {differing:?}\n  stderr: {}",
                r.code,
                written.iter().map(|x| &x.0).collect::<Vec<_>>(),
                expected.iter().map(|x| &x.0).collect::<Vec<_>>(),
                r.stderr
            ),
        ));
    }
    None
}

impl Check for C03 {
    type Case = Case;
    fn name(&self) -> &'static str {
        "strong-equivalence"
    }
    fn cases(&self, tier: Tier) -> usize {
        tier.pick(12_000, 300_000)
    }
    fn shrink_steps(&self) -> usize {
        // a case costs up to a second (exact evaluation of every problem, sometimes a run of the binary)
        300
    }
    fn strategy(&self, _tier: Tier) -> BoxedStrategy<Case> {
        // predicate names that are the h-/t-prefixed spelling of another predicate of the pool
        let mut c = c01::cfg();
        c.preds.push(("tp".into(), 1));
        c.preds.push(("hq".into(), 1));
        let pair = (ga::shaped_program(&c, 1), ga::shaped_rule(&c), 0u8..6, any::<u8>()).prop_map(|(left, extra, kind, pos)| {
            let mut right = left.clone();
            let n = right.rules.len();
            match kind {
                0 => {}
                1 => right.rules[pos as usize % n] = extra,
                2 => right.rules.push(extra),
                3 => {
                    if n > 1 {
                        right.rules.remove(pos as usize % n);
                    }
                }
                4 => right.rules.reverse(),
                _ => right = asp::Program { rules: vec![extra] },
            }
            (left, right)
        });
        (
            pair,
            (any::<bool>(), 0u8..3, any::<bool>(), any::<bool>(), any::<bool>()),
            g::raw_interp(5, 0, 2, 5),
            g::raw_interp(5, 0, 2, 2),
            0u8..7,
        )
            .prop_map(|((left, right), (sequential, direction, mu, simplify, eq_break), raw, extra, bs)| Case {
                left,
                right,
                sequential,
                direction,
                mu,
                simplify,
                eq_break,
                raw,
                extra,
                break_subset: bs == 0,
            })
            .boxed()
    }
    fn rule(&self) -> String {
        "pair of programs (the second is the first with one rule replaced/added/dropped, reordered, identical, or unrelated) x {tau-star, mu} x direction x decomposition x simplify x eq-break x a pair (H,T), 1 in 7 with H not a subset of T (1 pair in 3 guided: the closure of one of the programs minus an atom); oracle: an interpretation of the h-/t-copies refutes an emitted forward (backward) problem (exact classical evaluation of the problems' syntax trees) iff H subset-of T and (H,T) satisfies the left (right) program but not the right (left) one by the reference semantics; non-trivial = H subset-of T, both verdicts definite and the axioms of some problem hold, or H not a subset of T; distinct by programs + flags + interpretation; in one case in five every formula of every problem is also read back from the emitted TPTP text by the strict reader: it must have its tree's truth value in the interpretation and the same comparisons, relation by relation; one case in twelve is also run through the command line (programs named a.lp b.lp / n.lp b.lp / as a directory / file plus its directory / v2/prog.lp v1/prog.lp, the left program always first): the files written by --save-problems must be the problems judged in-process".into()
    }
    fn run(&self, case: &Case) -> Outcome {
        let direction = direction_of(case.direction);
        let problems = anthem::verif::strong(
            case.left.clone(),
            case.right.clone(),
            case.sequential,
            direction,
            case.mu,
            case.simplify,
            case.eq_break,
        );
        let both = asp::Program {
            rules: case.left.rules.iter().chain(case.right.rules.iter()).cloned().collect(),
        };
        if both.rules.is_empty() {
            return Outcome::skip("empty programs");
        }
        let pool = c01::program_pool(&both);
        let preds = c01::program_preds(&both);
        let (mut h0, mut t) = g::build_interp(&case.raw, &preds, &[], &pool);
        // one pair in three is guided: the closure of one of the two programs over the random atoms, minus an atom
        let selector: usize = case.raw.tuples.iter().flatten().flatten().map(|x| *x as usize).sum();
        if selector % 3 == 0 {
            let side = if (selector / 3) % 2 == 0 { &case.left } else { &case.right };
            if let Some((gh, gt)) = asp_ref::guided_pair(side, &t, &preds, selector / 6) {
                h0 = gh;
                t = gt;
            }
        }
        let h = if case.break_subset {
            let (_, e) = g::build_interp(&case.extra, &preds, &[], &pool);
            union(&h0, &e)
        } else {
            h0
        };
        let subset = h.subset_of(&t);
        let classical = ht_as_classical(&h, &t);
        let lt = safe_print::asp_program(&case.left, &Style::plain());
        let rt = safe_print::asp_program(&case.right, &Style::plain());
        let flags = format!(
            "sequential={} direction={:?} mu={} simplify={} eq_break={}",
            case.sequential, direction, case.mu, case.simplify, case.eq_break
        );
        let mut nontrivial = false;
        let mut labels = vec![format!("subset={subset}"), format!("mu={}", case.mu)];
        let mut definite = 0;
        for (prefix, axiom_side, conj_side, wanted) in [
            ("forward", &case.left, &case.right, matches!(direction, fol::Direction::Universal | fol::Direction::Forward)),
            ("backward", &case.right, &case.left, matches!(direction, fol::Direction::Universal | fol::Direction::Backward)),
        ] {
            let has = problems.iter().any(|p| p.name.starts_with(prefix));
            if !wanted {
                if has {
                    return Outcome::fail(
                        "unrequested-direction",
                        format!("C03: problems of direction {prefix} emitted although not requested ({flags})"),
                    );
                }
                continue;
            }
            let emitted = refutes(&problems, prefix, &classical, &pool, 300_000);
            let reference: Option<bool> = if !subset {
                Some(false)
            } else {
                match asp_ref::program_sat(axiom_side, &h, &t, &pool) {
                    Some(false) => Some(false),
                    Some(true) => asp_ref::program_sat(conj_side, &h, &t, &pool).map(|b| !b),
                    None => match asp_ref::program_sat(conj_side, &h, &t, &pool) {
                        Some(true) => Some(false),
                        _ => None,
                    },
                }
            };
            match (reference, emitted) {
                (Some(a), Some(b)) if a != b => {
                    return Outcome::fail(
                        format!("refutation-mismatch:{prefix}"),
                        format!(
                            "C03: ({prefix}) the pair (H,T) distinguishes the programs: {a}; it refutes an emitted problem: {b}\n  left: {lt}\n  right: {rt}\n  flags: {flags}\n  H: {}\n  T: {}\n  problems: {}",
                            h.json(),
                            t.json(),
                            problems
                                .iter()
                                .filter(|p| p.name.starts_with(prefix))
                                .map(|p| format!("\n   {}: {}", p.name, p.formulas.iter().map(|f| format!("{}{}", if f.conjecture { "|- " } else { "" }, f.formula)).collect::<Vec<_>>().join(" ;; ")))
                                .collect::<String>()
                        ),
                    );
                }
                (Some(a), Some(_)) => {
                    definite += 1;
                    labels.push(format!("{prefix}:refuted={a}"));
                    if !subset || axioms_hold_somewhere(&problems, prefix, &classical, &pool) {
                        nontrivial = true;
                    }
                }
                _ => labels.push(format!("{prefix}:inconclusive")),
            }
        }
        // one case in five: the problems are judged above by their syntax trees, the prover gets their text -
        // every formula as the strict TFF reader reads it must have the truth value of its tree
        if key_of(&lt, &rt, &flags) % 5 == 1 {
            for p in &problems {
                if let Some(d) = crate::checks::problems::text_disagrees(p, &classical, &pool, 100_000) {
                    return Outcome::fail(
                        "text-differs-from-tree",
                        format!("C03: {d}\n  left: {lt}\n  right: {rt}\n  flags: {flags}\n  H: {}\n  T: {}", h.json(), t.json()),
                    );
                }
            }
            labels.push("text-read-back".into());
        }
        // one case in twelve also goes through the command line: the program named first is the left
        // one and the one named second the right one, however the files are called and however the
        // arguments reach them; the files written must be the problems judged above
        let key = key_of(&lt, &rt, &flags);
        if key % 12 == 0 {
            if let Some(o) = cli_agrees(case, &problems, &lt, &rt, &flags, (key / 12) as usize) {
                return o;
            }
            labels.push("through-command-line".into());
        }
        if definite == 0 {
            return Outcome::skip("no direction with two definite verdicts").labels(labels);
        }
        Outcome::pass(nontrivial, hash64(&format!("{lt}|{rt}|{flags}|{:?}|{:?}", h.preds, t.preds))).labels(labels)
    }
    fn describe(&self, case: &Case) -> Value {
        json!({
            "left": safe_print::asp_program(&case.left, &Style::plain()),
            "right": safe_print::asp_program(&case.right, &Style::plain()),
            "sequential": case.sequential, "direction": case.direction, "mu": case.mu,
            "simplify": case.simplify, "eq_break": case.eq_break,
            "raw": raw_json(&case.raw), "extra": raw_json(&case.extra), "break_subset": case.break_subset,
        })
    }
    fn from_replay(&self, j: &Value) -> Option<Case> {
        Some(Case {
            left: j["left"].as_str()?.parse().ok()?,
            right: j["right"].as_str()?.parse().ok()?,
            sequential: j["sequential"].as_bool()?,
            direction: j["direction"].as_u64()? as u8,
            mu: j["mu"].as_bool()?,
            simplify: j["simplify"].as_bool()?,
            eq_break: j["eq_break"].as_bool()?,
            raw: raw_from_json(&j["raw"])?,
            extra: raw_from_json(&j["extra"])?,
            break_subset: j["break_subset"].as_bool()?,
        })
    }
}
