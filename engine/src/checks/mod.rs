pub mod c01;
pub mod c02;
pub mod c03;
pub mod c04;
pub mod c05;
pub mod c06;
pub mod c07;
pub mod c08;
pub mod c10;
pub mod c11;
pub mod c13;
pub mod c16;
pub mod c17;
pub mod problems;
pub mod c18;
pub mod c20;
pub mod roundtrip;

use crate::runner::{Campaign, FuzzPart, PropertyRun};

pub fn property(id: &str) -> Option<PropertyRun> {
    let window_note = "window mode: quantifiers relativised to a finite window of the standard domain (sound for purely logical laws)".to_string();
    Some(match id {
        "C01" => PropertyRun {
            id: id.into(),
            parts: vec![Box::new(Campaign(c01::C01)), Box::new(Campaign(c01::Equilibrium)), Box::new(Campaign(c01::FrontEnd))],
            assumptions: vec!["reference semantics: floor division/modulo defined for positive divisors only (the behaviour tau_star.rs documents)".into(), "finite extents; only definite verdicts of the exact evaluator and of the reference semantics are compared".into()],
        },
        "C02" => PropertyRun {
            id: id.into(),
            parts: vec![Box::new(Campaign(c02::C02))],
            assumptions: vec!["absolute reading of the public vocabulary: a declared output predicate absent from a program is empty in its stable models".into(), "exact mode, finite extents; only definite verdicts are compared; tasks valid by construction (stratified, tight, no private recursion)".into()],
        },
        "C19" => PropertyRun {
            id: id.into(),
            parts: vec![Box::new(Campaign(c02::C19))],
            assumptions: vec!["exact mode, finite extents; only definite verdicts are compared".into()],
        },
        "C03" => PropertyRun {
            id: id.into(),
            parts: vec![Box::new(Campaign(c03::C03))],
            assumptions: vec!["exact mode, finite extents; only definite verdicts are compared".into(), "identifiers are chosen so that no symbol clashes with a 0-ary predicate (renaming is C09/C12's subject)".into()],
        },
        "C04" => PropertyRun {
            id: id.into(),
            parts: vec![Box::new(Campaign(c04::C04)), Box::new(Campaign(c04::Refusal))],
            assumptions: vec!["tightness as reported by anthem defines the domain (its exactness is C11's subject)".into(), "exact mode, finite extents; only definite verdicts are compared".into()],
        },
        "C05" => PropertyRun {
            id: id.into(),
            parts: vec![Box::new(Campaign(c05::C05)), Box::new(Campaign(roundtrip::FolFrontEnd))],
            assumptions: vec![window_note, "the checker's Kripke evaluator for here-and-there is the trusted base".into()],
        },
        "C16" => PropertyRun {
            id: id.into(),
            parts: vec![Box::new(Campaign(c16::C16)), Box::new(Campaign(c16::RawBytes)), Box::new(FuzzPart { target: "pipeline", runs_thorough: 25_000 })],
            assumptions: vec!["in-process stages run on 512 MB stacks under catch_unwind; stack exhaustion can only be observed through the real binary (sampled), nesting is capped at 60 per mutation in the campaign".into(), "a hang is a run of the real binary that exceeds 60 s twice on an input of at most 6 KB".into()],
        },
        "C17" => PropertyRun {
            id: id.into(),
            parts: vec![Box::new(Campaign(c17::C17))],
            assumptions: vec![window_note, "the checker's evaluator and free-variable computation are the trusted base".into()],
        },
        "C06" => PropertyRun {
            id: id.into(),
            parts: vec![Box::new(Campaign(c06::C06))],
            assumptions: vec![window_note, "the checker's strict TFF reader/type checker and its reading of the preamble symbols are the trusted base (cross-checked against tests/examples/tptp4X_linux)".into()],
        },
        "C07" => PropertyRun {
            id: id.into(),
            parts: vec![Box::new(Campaign(c07::C07)), Box::new(Campaign(c07::CliAgreement))],
            assumptions: vec!["exact mode: only definite verdicts over the infinite standard domain are compared; cases with an unknown verdict are counted as skipped".into(), "finite predicate extents".into()],
        },
        "C08" => PropertyRun {
            id: id.into(),
            parts: vec![Box::new(Campaign(c08::C08))],
            assumptions: vec!["exact mode, finite extents; only definite verdicts are compared".into()],
        },
        "C09" => PropertyRun {
            id: id.into(),
            parts: vec![
                Box::new(Campaign(problems::C09 { known_shapes: false })),
                Box::new(Campaign(problems::C09 { known_shapes: true })),
                Box::new(Campaign(problems::Tptp4x)),
                Box::new(Campaign(problems::WithOutline)),
                Box::new(Campaign(problems::AcceptedNames)),
            ],
            assumptions: vec!["the checker's strict TFF reader and type checker are the oracle (acceptance cross-checked against tests/examples/tptp4X_linux)".into()],
        },
        "C12" => PropertyRun {
            id: id.into(),
            parts: vec![Box::new(Campaign(problems::C12)), Box::new(Campaign(problems::Preamble))],
            assumptions: vec!["quantifiers over $int, general and symbol are sampled on windows, as the property states".into(), "a declared constant is read as the source symbol of the input files it stands for: a source symbol named like a 0-ary predicate of the problem (followed by any number of __s suffixes) is expected under its name with __s appended, any other under its own name".into()],
        },
        "C10" => PropertyRun {
            id: id.into(),
            parts: vec![Box::new(Campaign(c10::C10))],
            assumptions: vec!["schedules are explored through generated per-problem delays and instance counts under the OS scheduler; the harness does not own the interleaving".into(), "a prover run counts as Theorem iff it printed `SZS status Theorem` in valid UTF-8 output (the exit status is ignored, as the code documents)".into()],
        },
        "C11" => PropertyRun {
            id: id.into(),
            parts: vec![Box::new(Campaign(c11::Analyses)), Box::new(Campaign(c11::Enforcement))],
            assumptions: vec!["regularity follows res/manual/src/analyze.md; unary minus is read as subtraction from 0".into()],
        },
        "C13" => PropertyRun {
            id: id.into(),
            parts: vec![Box::new(Campaign(c13::C13))],
            assumptions: vec!["lemma consequences and establishing problems are identified by the formula names anthem derives from the outline's entry names (every generated entry is named)".into(), "induction soundness is checked as: emitted obligation true implies the checker's own obligation true (window mode: substitution and closure are purely logical)".into()],
        },
        "C14" => PropertyRun {
            id: id.into(),
            parts: vec![Box::new(Campaign(roundtrip::C14)), Box::new(Campaign(roundtrip::SizeBoundary)), Box::new(FuzzPart { target: "roundtrip_asp", runs_thorough: 400_000 })],
            assumptions: vec!["input text comes from the checker's own printer; trees outside the image of the parser are never required to round-trip".into()],
        },
        "C15" => PropertyRun {
            id: id.into(),
            parts: vec![Box::new(Campaign(roundtrip::C15)), Box::new(Campaign(roundtrip::C15Outputs)), Box::new(Campaign(roundtrip::C15TheoryOutputs)), Box::new(Campaign(roundtrip::FolFrontEnd)), Box::new(Campaign(roundtrip::AcceptedNamesOutput)), Box::new(Campaign(roundtrip::LargeOutputs)), Box::new(FuzzPart { target: "roundtrip_fol", runs_thorough: 150_000 })],
            assumptions: vec!["input text comes from the checker's own printer; trees outside the image of the parser are never required to round-trip".into()],
        },
        "C18" => PropertyRun {
            id: id.into(),
            parts: vec![Box::new(Campaign(c18::Fixpoint)), Box::new(Campaign(c18::Determinism))],
            assumptions: vec!["termination is decided by pass count and cycle detection, not by a clock".into(), "determinism: three fresh processes per case (different hash seeds/ASLR)".into()],
        },
        "C20" => PropertyRun {
            id: id.into(),
            parts: vec![Box::new(Campaign(c20::C20)), Box::new(Campaign(c20::Swap))],
            assumptions: vec!["directory order model: depth-first, entries of a directory in byte-wise file-name order, hidden files included (observed on the unchanged tree and what walkdir's sort_by_file_name documents)".into()],
        },
        _ => return None,
    })
}

pub const ALL: &[&str] = &["C01", "C02", "C03", "C04", "C05", "C06", "C07", "C08", "C09", "C10", "C11", "C12", "C13", "C14", "C15", "C16", "C17", "C18", "C19", "C20"];
