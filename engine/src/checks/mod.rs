pub mod c05;
pub mod c17;

use crate::runner::{Campaign, PropertyRun};

pub fn property(id: &str) -> Option<PropertyRun> {
    let window_note = "window mode: quantifiers relativised to a finite window of the standard domain (sound for purely logical laws)".to_string();
    Some(match id {
        "C05" => PropertyRun {
            id: id.into(),
            parts: vec![Box::new(Campaign(c05::C05))],
            assumptions: vec![window_note, "the checker's Kripke evaluator for here-and-there is the trusted base".into()],
        },
        "C17" => PropertyRun {
            id: id.into(),
            parts: vec![Box::new(Campaign(c17::C17))],
            assumptions: vec![window_note, "the checker's evaluator and free-variable computation are the trusted base".into()],
        },
        _ => return None,
    })
}

pub const ALL: &[&str] = &["C05", "C17"];
