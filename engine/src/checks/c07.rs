//! C07 — simplification portfolios preserve the meaning of every formula.
use crate::checks::c17::{raw_from_json, raw_json};
use crate::dom::Sort;
use crate::eval::{Env, Ev, World};
use crate::generators::asp::{self as ga, AspCfg};
use crate::generators::fol::{self as g, FolCfg, RawInterp};
use crate::ir::{self, VarId};
use crate::ops::{self, Strategy as SimpStrategy};
use crate::runner::{Check, Outcome, Tier, hash64};
use crate::safe_print::{self, Style};
use anthem::syntax_tree::asp::mini_gringo as asp;
use anthem::syntax_tree::fol::sigma_0 as fol;
use anthem::translating::classical_reduction::completion::Completion as _;
use anthem::translating::classical_reduction::gamma::Gamma as _;
use anthem::translating::formula_representation::mu::Mu as _;
use anthem::translating::formula_representation::tau_star::TauStar as _;
use proptest::collection::vec;
use proptest::prelude::*;
use serde_json::{Value, json};

#[derive(Clone, Debug)]
pub enum Source {
    Formula(fol::Formula),
    /// formula `index` (modulo) of a translation of the program: 0 tau*, 1 mu, 2 completion(tau*), 3 gamma(tau*)
    Program(asp::Program, u8, u8),
}

#[derive(Clone, Debug)]
pub struct Case {
    pub source: Source,
    pub portfolio: usize,
    pub strategy: usize,
    pub raw: RawInterp,
    pub envc: Vec<u16>,
}

pub struct C07;

pub fn fol_cfg() -> FolCfg {
    FolCfg {
        preds: vec![("p".into(), 1), ("q".into(), 1), ("r".into(), 2), ("s".into(), 0)],
        gvars: vec!["X".into(), "Y".into(), "Z".into()],
        ivars: vec!["X".into(), "I".into(), "J".into(), "X1".into()],
        svars: vec!["S".into()],
        syms: vec!["a".into(), "b".into()],
        fcs: vec![("c".into(), Sort::G), ("n".into(), Sort::I)],
        num_lo: -2,
        num_hi: 3,
        depth: 4,
        max_guards: 2,
        term_depth: 2,
    }
}

pub fn asp_cfg() -> AspCfg {
    AspCfg {
        preds: vec![("p".into(), 1), ("q".into(), 1), ("r".into(), 2), ("s".into(), 0)],
        vars: vec!["X".into(), "Y".into(), "I".into(), "Z".into()],
        syms: vec!["a".into(), "b".into()],
        num_lo: -2,
        num_hi: 3,
        term_depth: 2,
        op_weights: [4, 3, 3, 2, 2, 3],
        max_body: 3,
        max_rules: 3,
        exotic_leaf_weight: 1,
    }
}

pub fn arith_cfg() -> AspCfg {
    AspCfg {
        preds: vec![("t".into(), 3), ("q".into(), 3), ("p".into(), 1)],
        vars: vec!["X".into(), "Y".into(), "W".into()],
        syms: vec!["a".into()],
        num_lo: 0,
        num_hi: 3,
        term_depth: 1,
        op_weights: [5, 3, 2, 2, 1, 3],
        max_body: 2,
        max_rules: 2,
        exotic_leaf_weight: 0,
    }
}

/// `t(X o1 n1, Y o2 n2, W o3 n3) :- q(X, Y, W).` and `p(X) :- q(t1, t2, t3), ...` with three arithmetic or
/// interval terms over (mostly) distinct variables in one atom
pub fn wide_arith_rule() -> BoxedStrategy<asp::Rule> {
    let var = |v: &str| asp::Term::Variable(asp::Variable(v.into()));
    let num = |n: isize| asp::Term::PrecomputedTerm(asp::PrecomputedTerm::Numeral(n));
    (vec((0usize..3, 0u8..5, 0isize..3), 3), any::<bool>())
        .prop_map(move |(parts, in_head)| {
            let names = ["X", "Y", "W"];
            // mostly three different variables (a rotation of X, Y, W), sometimes a repeated one
            let rot = parts[0].0;
            let repeat = parts[1].0 == 0 && parts[2].0 == 0;
            let wide: Vec<asp::Term> = parts
                .iter()
                .enumerate()
                .map(|(i, (v, op, n))| {
                    let v = &(if repeat { *v } else { (i + rot) % 3 });
                    let (op, l, r) = match op {
                        0 | 1 => (asp::BinaryOperator::Add, var(names[*v]), num(*n + 1)),
                        2 => (asp::BinaryOperator::Multiply, num(2), var(names[*v])),
                        3 => (asp::BinaryOperator::Divide, var(names[*v]), num(2)),
                        _ => (asp::BinaryOperator::Interval, num(1), num(*n + 1)),
                    };
                    asp::Term::BinaryOperation { op, lhs: Box::new(l), rhs: Box::new(r) }
                })
                .collect();
            let plain = asp::Atom { predicate_symbol: "q".into(), terms: vec![var("X"), var("Y"), var("W")] };
            let lit = |a: asp::Atom| asp::AtomicFormula::Literal(asp::Literal { sign: asp::Sign::NoSign, atom: a });
            if in_head {
                asp::Rule {
                    head: asp::Head::Basic(asp::Atom { predicate_symbol: "t".into(), terms: wide }),
                    body: asp::Body { formulas: vec![lit(plain)] },
                }
            } else {
                asp::Rule {
                    head: asp::Head::Basic(asp::Atom { predicate_symbol: "p".into(), terms: vec![var("X")] }),
                    body: asp::Body { formulas: vec![lit(asp::Atom { predicate_symbol: "t".into(), terms: wide }), lit(plain)] },
                }
            }
        })
        .boxed()
}

impl Source {
    pub fn formula(&self) -> Option<fol::Formula> {
        match self {
            Source::Formula(f) => Some(f.clone()),
            Source::Program(p, kind, idx) => {
                let theory = match kind % 4 {
                    0 => p.clone().tau_star(),
                    1 => p.clone().mu(),
                    2 => p.clone().tau_star().completion(Default::default())?,
                    _ => p.clone().tau_star().gamma(),
                };
                if theory.formulas.is_empty() {
                    return None;
                }
                let i = *idx as usize % theory.formulas.len();
                Some(theory.formulas[i].clone())
            }
        }
    }
    pub fn kind(&self) -> &'static str {
        match self {
            Source::Formula(_) => "random",
            Source::Program(_, k, _) => ["tau-star", "mu", "completion", "gamma"][(*k % 4) as usize],
        }
    }
}

/// which individual rewrites change the formula somewhere (attribution for the histogram)
fn rewrites_that_fire(f: &fol::Formula, portfolio: &str) -> Vec<String> {
    use anthem::convenience::apply::Apply as _;
    let mut out = vec![];
    for (pf, name, rw) in anthem::verif::rewrites() {
        let included = match portfolio {
            "classic" => true,
            _ => pf == "intuitionistic",
        };
        if !included {
            continue;
        }
        let mut rw2 = |x: fol::Formula| rw(x);
        let r = crate::runner::guarded(|| f.clone().apply(&mut rw2));
        if let crate::runner::Caught::Ok(r) = r {
            if r != *f {
                out.push(format!("fires:{name}"));
            }
        }
    }
    out
}

impl Check for C07 {
    type Case = Case;
    fn name(&self) -> &'static str {
        "simplify"
    }
    fn cases(&self, tier: Tier) -> usize {
        tier.pick(180_000, 4_000_000)
    }
    fn strategy(&self, _tier: Tier) -> BoxedStrategy<Case> {
        let fc = fol_cfg();
        let ac = asp_cfg();
        let source = prop_oneof![
            5 => g::guarded_formula(&fc).prop_map(Source::Formula),
            1 => g::formula(&fc).prop_map(Source::Formula),
            4 => (ga::program(&ac), any::<u8>(), any::<u8>()).prop_map(|(p, k, i)| Source::Program(p, k, i)),
            // rules with several arithmetic terms at once (wide atoms, shallow terms): the translations
            // and the simplifier then need three and more fresh variables of one letter in one block
            2 => (ga::program(&arith_cfg()), any::<u8>(), any::<u8>()).prop_map(|(p, k, i)| Source::Program(p, k, i)),
            2 => (wide_arith_rule(), ga::program(&arith_cfg()), any::<u8>(), any::<u8>()).prop_map(|(r, mut p, k, i)| {
                p.rules.truncate(1);
                p.rules.insert(0, r);
                Source::Program(p, k, i)
            }),
        ];
        (
            source,
            0usize..3,
            0usize..3,
            g::raw_interp(8, fc.fcs.len(), 2, 5),
            vec(any::<u16>(), 6),
        )
            .prop_map(|(source, portfolio, strategy, raw, envc)| Case {
                source,
                portfolio,
                strategy,
                raw,
                envc,
            })
            .boxed()
    }
    fn rule(&self) -> String {
        "formula from {guarded random formulas with shadowed/repeated binders, duplicated conjuncts, X = t(X), mixed-sort equalities; unguarded random formulas; tau*/mu/completion/gamma output of random programs} x portfolio {intuitionistic, ht, classic} x strategy {shallow, recursive, fixpoint} x random interpretation (H subset-of T for the HT portfolios) x assignment; oracle: exact three-valued evaluation over the standard domain before and after, equal whenever both definite, and free variables not enlarged; non-trivial = the simplification changed the formula and both verdicts are definite; distinct by formula text + portfolio + strategy + interpretation".into()
    }
    fn run(&self, case: &Case) -> Outcome {
        let fc = fol_cfg();
        let Some(before) = case.source.formula() else {
            return Outcome::skip("no formula (empty program or not completable)");
        };
        let portfolio = ops::PORTFOLIOS[case.portfolio];
        let strategy = ops::STRATEGIES[case.strategy];
        let after = ops::simplify(before.clone(), portfolio, strategy);
        let (b_ir, a_ir) = (ir::lower(&before), ir::lower(&after));
        let shown = safe_print::formula(&before, &Style::plain());
        let fv_b = b_ir.free_vars();
        let fv_a = a_ir.free_vars();
        if !fv_a.is_subset(&fv_b) {
            return Outcome::fail(
                "new-free-variable",
                format!(
                    "C07: {portfolio}/{} introduced free variables {:?}\n  before: {shown}\n  after : {after}",
                    strategy.name(),
                    fv_a.difference(&fv_b).collect::<Vec<_>>()
                ),
            );
        }
        let mut sig = ir::Signature::default();
        b_ir.signature(&mut sig);
        a_ir.signature(&mut sig);
        let pool = g::value_pool(&sig, &["zz"]);
        let preds: Vec<(String, usize)> = sig.preds.iter().cloned().collect();
        let mut fcs: Vec<VarId> = fc.fcs.iter().cloned().collect();
        for f in &sig.fcs {
            if !fcs.contains(f) {
                fcs.push(f.clone());
            }
        }
        let (h, t) = g::build_interp(&case.raw, &preds, &fcs, &pool);
        let envp = g::build_env(&fv_b, &case.envc, &pool);
        let classic = portfolio == "classic";
        let (va, vb);
        if classic {
            let ev = Ev::classical(&t, &pool, true).with_budget(300_000);
            vb = ev.sat(&b_ir, &mut Env::from_pairs(&envp), World::T);
            let ev = Ev::classical(&t, &pool, true).with_budget(300_000);
            va = ev.sat(&a_ir, &mut Env::from_pairs(&envp), World::T);
        } else {
            let ev = Ev::ht(&h, &t, &pool, true).with_budget(300_000);
            vb = ev.sat(&b_ir, &mut Env::from_pairs(&envp), World::H);
            let ev = Ev::ht(&h, &t, &pool, true).with_budget(300_000);
            va = ev.sat(&a_ir, &mut Env::from_pairs(&envp), World::H);
        }
        let changed = after != before;
        let key = hash64(&format!("{shown}|{portfolio}|{}|{:?}|{:?}|{:?}", strategy.name(), h.preds, t.preds, envp));
        let mut labels = vec![
            format!("source={}", case.source.kind()),
            format!("portfolio={portfolio}"),
            format!("strategy={}", strategy.name()),
        ];
        match (vb, va) {
            (Some(x), Some(y)) if x != y => Outcome::fail(
                "meaning-changed",
                format!(
                    "C07: {portfolio}/{} changed the truth value from {x} to {y}\n  before: {shown}\n  after : {after}\n  H: {}\n  T: {}\n  assignment: {:?}\n  rewrites that fire: {:?}",
                    strategy.name(),
                    if classic { "(= T)".to_string() } else { h.json().to_string() },
                    t.json(),
                    envp,
                    rewrites_that_fire(&before, portfolio)
                ),
            ),
            (Some(_), Some(_)) => {
                if changed && key % 8 == 0 {
                    labels.extend(rewrites_that_fire(&before, portfolio));
                }
                Outcome::pass(changed, key).labels(labels).readable(format!(
                    "{portfolio}/{}\n  before: {shown}\n  after : {after}\n  verdict: {vb:?}\n  H: {}\n  T: {}\n  assignment: {envp:?}",
                    strategy.name(),
                    h.json(),
                    t.json()
                ))
            }
            _ => Outcome::skip("verdict not definite (unguarded quantifier or budget)").labels(labels),
        }
    }
    fn describe(&self, case: &Case) -> Value {
        let source = match &case.source {
            Source::Formula(f) => json!({"formula": safe_print::formula(f, &Style::plain())}),
            Source::Program(p, k, i) => json!({
                "program": safe_print::asp_program(p, &Style::plain()),
                "kind": k, "index": i,
                "formula": case.source.formula().map(|f| f.to_string()),
            }),
        };
        json!({
            "source": source,
            "portfolio": ops::PORTFOLIOS[case.portfolio],
            "strategy": ops::STRATEGIES[case.strategy].name(),
            "raw": raw_json(&case.raw),
            "envc": case.envc,
        })
    }
    fn from_replay(&self, j: &Value) -> Option<Case> {
        let s = &j["source"];
        let source = if let Some(p) = s.get("program") {
            Source::Program(p.as_str()?.parse().ok()?, s["kind"].as_u64()? as u8, s["index"].as_u64()? as u8)
        } else {
            Source::Formula(s["formula"].as_str()?.parse().ok()?)
        };
        Some(Case {
            source,
            portfolio: ops::PORTFOLIOS.iter().position(|p| Some(*p) == j["portfolio"].as_str())?,
            strategy: ops::STRATEGIES
                .iter()
                .position(|p| Some(p.name()) == j["strategy"].as_str())?,
            raw: raw_from_json(&j["raw"])?,
            envc: j["envc"].as_array()?.iter().map(|x| x.as_u64().unwrap() as u16).collect(),
        })
    }
}

#[allow(dead_code)]
fn unused(_: SimpStrategy) {}

// ---------------------------------------------------------------------------------------
// the command `simplify` applies the portfolio and strategy it is asked for

pub struct CliAgreement;

#[derive(Clone, Debug)]
pub struct CliCase {
    pub formulas: Vec<fol::Formula>,
    pub portfolio: usize,
    pub strategy: usize,
}

impl Check for CliAgreement {
    type Case = CliCase;
    fn name(&self) -> &'static str {
        "simplify-command"
    }
    fn shards(&self) -> usize {
        8
    }
    fn shrink_steps(&self) -> usize {
        200
    }
    fn cases(&self, tier: Tier) -> usize {
        tier.pick(600, 12_000)
    }
    fn strategy(&self, _tier: Tier) -> BoxedStrategy<CliCase> {
        let fc = fol_cfg();
        (vec(prop_oneof![3 => g::guarded_formula(&fc), 1 => g::formula(&fc)], 1..4), 0usize..3, 0usize..3)
            .prop_map(|(formulas, portfolio, strategy)| CliCase { formulas, portfolio, strategy })
            .boxed()
    }
    fn rule(&self) -> String {
        "theory of 1-3 random formulas (closed by the checker) x portfolio x strategy, given to `anthem simplify --portfolio P --strategy S`; oracle: the command prints exactly the theory obtained in-process by applying the rewrites of portfolio P (the lists the semantic part of this check evaluates) under strategy S to each formula; non-trivial = some formula is changed by the simplification; distinct by input + portfolio + strategy".into()
    }
    fn run(&self, case: &CliCase) -> Outcome {
        let Some(bin) = crate::cli::anthem_bin() else {
            return Outcome::skip("ANTHEM_BIN not set");
        };
        let portfolio = ops::PORTFOLIOS[case.portfolio];
        let strategy = ops::STRATEGIES[case.strategy];
        // the parser's image of the generated formulas
        let mut input = fol::Theory { formulas: vec![] };
        for f in &case.formulas {
            let Ok(f0) = safe_print::formula(f, &Style::plain()).parse::<fol::Formula>() else {
                return Outcome::skip("generated formula not accepted");
            };
            input.formulas.push(f0);
        }
        let text = input.to_string();
        let expected = fol::Theory {
            formulas: input.formulas.iter().cloned().map(|f| ops::simplify(f, portfolio, strategy)).collect(),
        };
        // as a user would write it: comments and blank lines between the formulas
        let commented: String = std::iter::once("% theory\n\n".to_string()).chain(text.lines().map(|l| format!("{l} % formula\n\n"))).collect();
        let r = crate::cli::run_env(&bin, &["simplify", "--portfolio", portfolio, "--strategy", strategy.name()], Some(&commented), &[], std::time::Duration::from_secs(60));
        if r.timed_out {
            return Outcome::skip("the command did not finish within 60 s");
        }
        if r.code != Some(0) {
            return Outcome::skip("the command refused its input (reported by C15/C16)");
        }
        if r.stdout.trim() != expected.to_string().trim() {
            return Outcome::fail(
                "command-differs-from-portfolio",
                format!(
                    "C07: `anthem simplify --portfolio {portfolio} --strategy {}` does not print what the portfolio's rewrites give in-process\n  input   : {text}\n  command : {}\n  expected: {expected}",
                    strategy.name(),
                    r.stdout
                ),
            );
        }
        Outcome::pass(expected != input, hash64(&format!("{text}|{portfolio}|{}", strategy.name())))
            .label(format!("portfolio={portfolio}"))
            .label(format!("strategy={}", strategy.name()))
    }
    fn describe(&self, case: &CliCase) -> Value {
        json!({
            "formulas": case.formulas.iter().map(|f| safe_print::formula(f, &Style::plain())).collect::<Vec<_>>(),
            "portfolio": ops::PORTFOLIOS[case.portfolio],
            "strategy": ops::STRATEGIES[case.strategy].name(),
        })
    }
    fn from_replay(&self, j: &Value) -> Option<CliCase> {
        Some(CliCase {
            formulas: j["formulas"].as_array()?.iter().map(|x| x.as_str().and_then(|s| s.parse().ok())).collect::<Option<Vec<_>>>()?,
            portfolio: ops::PORTFOLIOS.iter().position(|p| Some(*p) == j["portfolio"].as_str())?,
            strategy: ops::STRATEGIES.iter().position(|p| Some(p.name()) == j["strategy"].as_str())?,
        })
    }
}
