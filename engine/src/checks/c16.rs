//! C16 — any input text leads to a result or a reported error, never a crash.
use crate::cli;
use crate::generators::asp as ga;
use crate::generators::fol as gf;
use crate::generators::task::{self as gt, Chooser};
use crate::generators::text;
use crate::ops;
use crate::runner::{Caught, Check, Outcome, Tier, guarded, hash64};
use crate::safe_print::{self, Style};
use anthem::analyzing::regularity::Regularity as _;
use anthem::analyzing::tightness::Tightness as _;
use anthem::syntax_tree::asp::mini_gringo as asp;
use anthem::syntax_tree::fol::sigma_0 as fol;
use anthem::translating::classical_reduction::completion::Completion as _;
use anthem::translating::classical_reduction::gamma::Gamma as _;
use anthem::translating::formula_representation::mu::Mu as _;
use anthem::translating::formula_representation::natural::Natural as _;
use anthem::translating::formula_representation::tau_star::TauStar as _;
use proptest::prelude::*;
use serde_json::{Value, json};
use std::sync::OnceLock;
use std::time::Duration;

#[derive(Clone, Debug)]
pub struct Case {
    /// which base text (index into examples + directed + generated) and how it is mutated
    pub choices: Vec<u16>,
    pub generated: Option<String>,
    pub via_cli: bool,
}

pub struct C16;

fn bases() -> &'static Vec<(String, String)> {
    static B: OnceLock<Vec<(String, String)>> = OnceLock::new();
    B.get_or_init(|| {
        let mut v = text::example_files();
        for (e, t) in text::directed_texts() {
            v.push((e.to_string(), t));
        }
        v
    })
}

/// the number of equations `X = .. Y * Y ..`-like definitions in a row: products of a variable with itself
/// (the classic portfolio substitutes defined variables, which doubles the formula at every link)
pub fn squaring_chain(text: &str) -> usize {
    let compact: String = text.chars().filter(|c| !c.is_whitespace()).collect();
    let mut count = 0;
    for part in compact.split("and") {
        if let Some((_, rhs)) = part.split_once('=') {
            if let Some((a, b)) = rhs.split_once('*') {
                let clean = |s: &str| s.trim_matches(|c: char| c == '(' || c == ')' || c == '.').to_string();
                if !a.is_empty() && clean(a) == clean(b) {
                    count += 1;
                }
            }
        }
    }
    count
}

pub fn nesting(text: &str) -> usize {
    let mut depth: usize = 0;
    let mut max = 0;
    let mut run = 0;
    for ch in text.chars() {
        match ch {
            '(' => {
                depth += 1;
                max = max.max(depth);
            }
            ')' => depth = depth.saturating_sub(1),
            '-' => {
                run += 1;
                max = max.max(run);
                continue;
            }
            _ => {}
        }
        if ch != ' ' {
            run = 0;
        }
    }
    // prefix keywords
    let nots = text.matches("not ").count();
    max.max(if nots > 200 { nots } else { 0 })
}

fn tiny_program() -> asp::Program {
    "q(X) :- p(X).".parse().unwrap()
}
fn tiny_guide() -> fol::UserGuide {
    "input: p/1. output: q/1.".parse().unwrap()
}

struct Stage<'a> {
    name: &'a str,
}

fn stage<T>(name: &str, f: impl FnOnce() -> T) -> Result<T, (String, String)> {
    let _ = Stage { name };
    match guarded(f) {
        Caught::Ok(v) => Ok(v),
        Caught::AnthemPanic { location, message } => Err((
            format!("panic:{}", location.split(':').next().unwrap_or("")),
            format!("stage `{name}` panicked at {location}: {message}"),
        )),
        Caught::OtherPanic { location, message } if location.starts_with("harness:") || location.starts_with("src/") => {
            panic!("harness bug in stage {name} at {location}: {message}")
        }
        Caught::OtherPanic { location, message } => {
            // a panic in a dependency (pest, regex, ...) reached through anthem is anthem's crash too
            Err((format!("panic-in-dependency:{name}"), format!("stage `{name}` panicked at {location}: {message}")))
        }
    }
}

fn formula_stages(f: &fol::Formula, tag: &str) -> Result<(), (String, String)> {
    stage(&format!("{tag}/display"), || f.to_string())?;
    stage(&format!("{tag}/tptp"), || anthem::formatting::fol::sigma_0::tptp::Format(f).to_string())?;
    stage(&format!("{tag}/gamma"), || f.clone().gamma())?;
    if crate::ir::lower(f).size() < 400 {
        for p in ops::PORTFOLIOS {
            for s in ops::STRATEGIES {
                stage(&format!("{tag}/simplify:{p}:{}", s.name()), || ops::simplify(f.clone(), p, s))?;
            }
        }
    }
    Ok(())
}

/// every stage an accepted input can reach; Ok(number of front ends that accepted the text)
pub fn pipeline(text: &str) -> Result<usize, (String, String)> {
    let mut accepted = 0;
    let flags = gt::Flags {
        sequential: true,
        direction: fol::Direction::Universal,
        simplify: true,
        eq_break: true,
    };
    if let Ok(p) = stage("parse/program", || text.parse::<asp::Program>())? {
        accepted += 1;
        stage("program/display", || p.to_string())?;
        stage("program/tight", || p.is_tight())?;
        stage("program/regular", || p.is_regular())?;
        let tau = stage("program/tau-star", || p.clone().tau_star())?;
        stage("program/natural", || p.clone().natural())?;
        let mu = stage("program/mu", || p.clone().mu())?;
        stage("program/completion", || tau.clone().completion(Default::default()))?;
        // the simplifier is polynomial of a high degree in the width of a rule (a 300-ary atom takes
        // a minute): problem generation is exercised on programs of moderate width only
        let width: usize = p.rules.iter().map(|r| r.terms().len() + r.variables().len()).sum();
        if p.rules.len() <= 12 && width <= 60 {
            for f in tau.formulas.iter().chain(mu.formulas.iter()).take(16) {
                formula_stages(f, "program")?;
            }
            for mu_flag in [false, true] {
                let problems = stage("program/strong", || ops::strong_problems(&p, &p, &flags, mu_flag))?;
                for pr in problems.iter().take(4) {
                    let _ = pr.text.len();
                }
            }
            // as both sides of an external task with a derived user guide
            let heads: Vec<asp::Predicate> = p.head_predicates().into_iter().collect();
            let mut entries = vec![];
            for q in p.predicates() {
                let pred = fol::Predicate { symbol: q.symbol.clone(), arity: q.arity };
                if heads.contains(&q) {
                    entries.push(fol::UserGuideEntry::OutputPredicate(pred));
                } else {
                    entries.push(fol::UserGuideEntry::InputPredicate(pred));
                }
            }
            let ug = fol::UserGuide { entries };
            stage("program/external", || {
                anthem::verif::external(
                    either::Either::Left(p.clone()),
                    p.clone(),
                    ug.clone(),
                    ops::empty_outline(),
                    true,
                    fol::Direction::Universal,
                    false,
                    true,
                    true,
                    true,
                )
                .map(|x| x.0.len())
                .map_err(|e| e.0)
            })?;
        }
    }
    if let Ok(t) = stage("parse/theory", || text.parse::<fol::Theory>())? {
        accepted += 1;
        stage("theory/display", || t.to_string())?;
        stage("theory/completion", || t.clone().completion(Default::default()))?;
        for f in t.formulas.iter().take(12) {
            formula_stages(f, "theory")?;
        }
    }
    if let Ok(s) = stage("parse/specification", || text.parse::<fol::Specification>())? {
        accepted += 1;
        stage("specification/display", || s.to_string())?;
        for role in ["as-specification", "as-proof-outline"] {
            stage(&format!("specification/{role}"), || {
                let (spec, outline) = if role == "as-specification" {
                    (either::Either::Right(s.clone()), ops::empty_outline())
                } else {
                    (either::Either::Left(tiny_program()), s.clone())
                };
                anthem::verif::external(spec, tiny_program(), tiny_guide(), outline, true, fol::Direction::Universal, false, false, true, true)
                    .map(|x| x.0.len())
                    .map_err(|e| e.0)
            })?;
        }
    }
    if let Ok(u) = stage("parse/user-guide", || text.parse::<fol::UserGuide>())? {
        accepted += 1;
        stage("user-guide/display", || u.to_string())?;
        stage("user-guide/external", || {
            anthem::verif::external(
                either::Either::Left(tiny_program()),
                tiny_program(),
                u.clone(),
                ops::empty_outline(),
                true,
                fol::Direction::Universal,
                false,
                false,
                true,
                true,
            )
            .map(|x| x.0.len())
            .map_err(|e| e.0)
        })?;
    }
    Ok(accepted)
}

fn cli_commands(ext: &str) -> Vec<Vec<&'static str>> {
    match ext {
        "lp" => vec![
            vec!["parse", "--as", "program", "--output", "default"],
            vec!["translate", "--with", "tau-star"],
            vec!["translate", "--with", "natural"],
            vec!["translate", "--with", "mu"],
            vec!["analyze", "--property", "tightness"],
            vec!["analyze", "--property", "regularity"],
        ],
        "ug" => vec![vec!["parse", "--as", "user-guide", "--output", "default"]],
        _ => vec![
            vec!["parse", "--as", "specification", "--output", "default"],
            vec!["parse", "--as", "theory", "--output", "default"],
            vec!["translate", "--with", "gamma"],
            vec!["translate", "--with", "completion"],
            vec!["simplify", "--portfolio", "classic", "--strategy", "fixpoint"],
        ],
    }
}

impl Check for C16 {
    type Case = Case;
    fn name(&self) -> &'static str {
        "robustness"
    }
    fn cases(&self, tier: Tier) -> usize {
        tier.pick(40_000, 1_000_000)
    }
    fn strategy(&self, _tier: Tier) -> BoxedStrategy<Case> {
        let ac = crate::checks::roundtrip::asp_cfg();
        let fc = crate::checks::roundtrip::fol_cfg();
        let generated = prop_oneof![
            6 => Just(None),
            1 => (ga::program(&ac), proptest::collection::vec(any::<u8>(), 0..12))
                .prop_map(|(p, st)| Some(safe_print::asp_program(&p, &Style::from_bytes(st)))),
            1 => (proptest::collection::vec(gf::formula(&fc), 0..3), proptest::collection::vec(any::<u8>(), 0..12))
                .prop_map(|(fs, st)| Some(safe_print::theory(&fol::Theory { formulas: fs }, &Style::from_bytes(st)))),
        ];
        (gt::choices(40), generated, 0u16..120)
            .prop_map(|(choices, generated, k)| Case {
                choices,
                generated,
                via_cli: k == 0,
            })
            .boxed()
    }
    fn rule(&self) -> String {
        "an accepted text (the repository's example programs/specifications/user guides/outlines, directed corner texts: empty files, comments only, numerals at and beyond the 64-bit limits, huge arities, 300 arguments; or a generated program/theory printed with random whitespace) with 0-6 token-level mutations (delete, duplicate, swap, numeral inflation, operator soup, unbalanced parentheses, truncation, nesting up to 60 per mutation); the text is parsed as program, theory, specification and user guide and every later stage is run in-process (Display, tau-star, natural, mu, gamma, completion, 9 simplifications, TPTP rendering, tightness, regularity, strong and external problem generation, as specification and as proof outline) under catch_unwind; 1 case in 120 also goes through the real binary (exit status must be 0, 1 or 2 with a message on stderr when non-zero, never a signal or 101, within 60 s); non-trivial = accepted by at least one front end or at most 2 mutations away from an accepted text; distinct by text".into()
    }
    fn directed(&self) -> Vec<Case> {
        // every base text unmutated
        (0..bases().len())
            .map(|i| Case {
                choices: vec![((i * 65536) / bases().len() + 1).min(65535) as u16, 0],
                generated: None,
                via_cli: i % 7 == 0,
            })
            .collect()
    }
    fn run(&self, case: &Case) -> Outcome {
        let (ext, text, mutations) = materialise(case);
        let key = hash64(&text);
        let depth = nesting(&text);
        // very deep nesting is only given to the real binary: in-process it would either exhaust the
        // stack (not catchable) or spend minutes in the high-degree polynomial simplifier
        // (the same holds for a chain of squaring definitions, a recorded finding: exponential output)
        let chain = squaring_chain(&text);
        let in_process = if depth >= 400 || chain >= 12 { Ok(0) } else { pipeline(&text) };
        let via_cli = case.via_cli || depth >= 400 || chain >= 12;
        match in_process {
            Err((sig, msg)) => Outcome::fail(sig, format!("C16: {msg}\n  input ({ext}): {:?}", truncate(&text))),
            Ok(accepted) => {
                if via_cli {
                    if let Some(bin) = cli::anthem_bin() {
                        for cmd in cli_commands(&ext) {
                            let mut r = cli::run_env(&bin, &cmd, Some(&text), &[], Duration::from_secs(60));
                            if r.timed_out {
                                r = cli::run_env(&bin, &cmd, Some(&text), &[], Duration::from_secs(60));
                                if r.timed_out {
                                    let sig = if chain >= 12 && cmd[0] == "simplify" { "hang:squaring-chain>=12" } else { "hang" };
                                    return Outcome::fail(sig, format!("C16: `anthem {}` did not terminate within 60 s (twice)\n  input: {:?}", cmd.join(" "), truncate(&text)));
                                }
                            }
                            let ok = match r.code {
                                Some(0) => true,
                                Some(1) | Some(2) => !r.stderr.trim().is_empty(),
                                _ => false,
                            };
                            if !ok {
                                let sig = if r.signal.is_some() && depth >= 1000 {
                                    "stack-overflow:nesting>=1000".to_string()
                                } else {
                                    format!("cli-crash:{}", cmd[..2].join("-"))
                                };
                                return Outcome::fail(
                                    sig,
                                    format!(
                                        "C16: `anthem {}` ended with exit {:?} signal {:?}\n  stderr: {}\n  input: {:?}",
                                        cmd.join(" "),
                                        r.code,
                                        r.signal,
                                        truncate(&r.stderr),
                                        truncate(&text)
                                    ),
                                );
                            }
                        }
                    }
                }
                Outcome::pass(accepted > 0 || mutations <= 2, key)
                    .label(format!("accepted-by={accepted}"))
                    .label(format!("mutations={mutations}"))
                    .label(format!("ext={ext}"))
                    .label(format!("cli={}", case.via_cli))
            }
        }
    }
    fn describe(&self, case: &Case) -> Value {
        let (ext, text, _) = materialise(case);
        json!({"ext": ext, "text": text, "via_cli": case.via_cli})
    }
    fn from_replay(&self, j: &Value) -> Option<Case> {
        // replays carry the final text: no mutation is applied again
        Some(Case {
            choices: vec![0, 0],
            generated: Some(format!("{}\u{0}{}", j["ext"].as_str()?, j["text"].as_str()?)),
            via_cli: j["via_cli"].as_bool().unwrap_or(false),
        })
    }
}

fn truncate(s: &str) -> String {
    if s.len() > 1500 { format!("{}...[{} bytes]", &s[..s.char_indices().take(1500).last().map(|x| x.0).unwrap_or(0)], s.len()) } else { s.to_string() }
}

pub fn materialise(case: &Case) -> (String, String, usize) {
    if let Some(g) = &case.generated {
        if let Some((ext, text)) = g.split_once('\u{0}') {
            return (ext.to_string(), text.to_string(), 0);
        }
    }
    let mut c = Chooser::new(case.choices.clone());
    let (ext, base) = match &case.generated {
        Some(g) => {
            let _ = c.next(2);
            (if g.contains(":-") || !g.contains("forall") { "lp".to_string() } else { "spec".to_string() }, g.clone())
        }
        None => {
            let b = bases();
            let (e, t) = &b[c.next(b.len())];
            (e.clone(), t.clone())
        }
    };
    let n = match c.next(8) {
        0 => 0,
        1 | 2 => 1,
        3 | 4 => 2,
        5 => 3,
        6 => 4,
        _ => 6,
    };
    let text = text::mutate(&base, &mut c, n);
    // keep the size moderate
    let text = if text.len() > 6000 { text.chars().take(6000).collect() } else { text };
    (ext, text, n)
}

// ---------------------------------------------------------------------------------------
// raw bytes (including invalid UTF-8) through the real binary, as files and on stdin

#[derive(Clone, Debug)]
pub struct BytesCase {
    pub bytes: Vec<u8>,
    pub command: u8,
}

pub struct RawBytes;

impl Check for RawBytes {
    type Case = BytesCase;
    fn name(&self) -> &'static str {
        "raw-bytes"
    }
    fn shards(&self) -> usize {
        8
    }
    fn shrink_steps(&self) -> usize {
        150
    }
    fn cases(&self, tier: Tier) -> usize {
        tier.pick(400, 8_000)
    }
    fn strategy(&self, _tier: Tier) -> BoxedStrategy<BytesCase> {
        let base = proptest::sample::select(bases().iter().map(|b| b.1.clone().into_bytes()).collect::<Vec<_>>());
        let bytes = prop_oneof![
            2 => proptest::collection::vec(any::<u8>(), 0..200),
            // files without any rule or formula
            1 => proptest::sample::select(vec![Vec::new(), b"% comment only\n".to_vec(), b"\n\n  \n".to_vec(), b"%".to_vec()]),
            3 => (base, proptest::collection::vec((any::<u16>(), any::<u8>()), 1..6)).prop_map(|(mut b, edits)| {
                for (pos, byte) in edits {
                    if b.is_empty() {
                        b.push(byte);
                    } else {
                        let i = (pos as usize * b.len()) >> 16;
                        if byte % 3 == 0 { b.insert(i, byte | 0x80) } else { b[i] = byte }
                    }
                }
                b.truncate(4096);
                b
            }),
        ];
        (bytes, 0u8..10).prop_map(|(bytes, command)| BytesCase { bytes, command }).boxed()
    }
    fn rule(&self) -> String {
        "random bytes, or an example file with 1-5 byte edits (often producing invalid UTF-8), given to the real binary as a file or on stdin for parse / translate / verify --equivalence strong / verify --equivalence external (without proof search, and with proof search, several prover instances and no prover on the PATH, or a stand-in prover that is killed by a signal before or after its status line, prints non-UTF-8 noise or exits non-zero); oracle: exit status 0, 1 or 2, a message on stderr when non-zero, no signal, no panic message, within 60 s; non-trivial = every case; distinct by bytes + command".into()
    }
    fn run(&self, case: &BytesCase) -> Outcome {
        let Some(bin) = cli::anthem_bin() else {
            return Outcome::skip("ANTHEM_BIN not set");
        };
        let dir = cli::scratch_dir("c16b");
        let f = dir.join("in.lp");
        std::fs::write(&f, &case.bytes).unwrap();
        std::fs::write(dir.join("in.ug"), &case.bytes).unwrap();
        std::fs::write(dir.join("ok.lp"), "q(X) :- p(X).\n").unwrap();
        std::fs::write(dir.join("ok.ug"), "input: p/1. output: q/1.\n").unwrap();
        let fs = f.to_string_lossy().to_string();
        let okl = dir.join("ok.lp").to_string_lossy().to_string();
        let oku = dir.join("ok.ug").to_string_lossy().to_string();
        let inu = dir.join("in.ug").to_string_lossy().to_string();
        let args: Vec<String> = match case.command {
            0 => vec!["parse".into(), "--as".into(), "program".into(), fs.clone()],
            1 => vec!["parse".into(), "--as".into(), "theory".into(), fs.clone()],
            2 => vec!["translate".into(), "--with".into(), "tau-star".into(), fs.clone()],
            3 => vec!["verify".into(), "--equivalence".into(), "strong".into(), "--no-proof-search".into(), fs.clone(), okl.clone()],
            4 => vec!["verify".into(), "--equivalence".into(), "external".into(), "--no-proof-search".into(), okl.clone(), fs.clone(), oku.clone()],
            5 => vec!["verify".into(), "--equivalence".into(), "external".into(), "--no-proof-search".into(), okl.clone(), okl.clone(), inu.clone()],
            // with proof search (several prover instances, no prover on the PATH): the input against a
            // program without rules, and against itself
            6 => vec!["verify".into(), "--equivalence".into(), "strong".into(), "-n".into(), "2".into(), fs.clone(), dir.join("empty.lp").to_string_lossy().to_string()],
            7 => vec!["verify".into(), "--equivalence".into(), "strong".into(), "-n".into(), "3".into(), "--time-limit".into(), "1".into(), fs.clone(), fs.clone()],
            // with proof search and a prover that misbehaves (see below): one instance, and two
            8 => vec!["verify".into(), "--equivalence".into(), "strong".into(), "--time-limit".into(), "1".into(), fs.clone(), okl.clone()],
            // (instances and cores per prover both automatic in half of the cases)
            _ => vec!["verify".into(), "--equivalence".into(), "external".into(), "-n".into(), if case.bytes.len() % 2 == 0 { "0".into() } else { "2".into() }, "-m".into(), "0".into(), "--time-limit".into(), "1".into(), okl.clone(), fs.clone(), oku.clone()],
        };
        std::fs::write(dir.join("empty.lp"), "% no rules\n").unwrap();
        let argv: Vec<&str> = args.iter().map(|s| s.as_str()).collect();
        let no_prover = [("PATH", "/nonexistent".to_string())];
        // commands 8 and 9: the stand-in prover answers every problem the same way, chosen by the bytes:
        // it is killed by a signal (before or after its status line), prints noise, or exits early
        const MISBEHAVIOURS: [&str; 6] = ["KilledBySignal", "TheoremThenKilledBySignal", "NonUtf8", "NoStatusNonZeroExit", "Theorem", "TheoremNonZeroExit"];
        let misbehaviour = MISBEHAVIOURS[case.bytes.iter().map(|b| *b as usize).sum::<usize>() % MISBEHAVIOURS.len()];
        let bindir = dir.join("bin");
        let with_stub: Vec<(&str, String)> = if case.command >= 8 {
            std::fs::create_dir_all(&bindir).unwrap();
            std::os::unix::fs::symlink(std::env::current_exe().expect("own path"), bindir.join("vampire")).unwrap();
            vec![
                ("PATH", bindir.to_string_lossy().to_string()),
                ("STUB_DIR", bindir.to_string_lossy().to_string()),
                ("STUB_DEFAULT_OUTCOME", misbehaviour.to_string()),
            ]
        } else {
            vec![]
        };
        let env: &[(&str, String)] = if case.command >= 8 { &with_stub } else if case.command >= 6 { &no_prover } else { &[] };
        let r = cli::run_env(&bin, &argv, None, env, Duration::from_secs(60));
        let _ = std::fs::remove_dir_all(&dir);
        let shown = String::from_utf8_lossy(&case.bytes).chars().take(300).collect::<String>();
        // deep nesting can arise from byte edits of nested examples only in principle; classify it
        let depth = nesting(&String::from_utf8_lossy(&case.bytes));
        if r.timed_out {
            return Outcome::skip("slow run (not confirmed as a hang)");
        }
        let ok = match r.code {
            Some(0) => true,
            Some(1) | Some(2) => !r.stderr.trim().is_empty() && !r.stderr.contains("panicked at"),
            _ => false,
        };
        if !ok {
            let sig = if r.signal.is_some() && depth >= 1000 { "stack-overflow:nesting>=1000".to_string() } else { format!("cli-crash:{}", argv[..2].join("-")) };
            return Outcome::fail(
                sig,
                format!("C16: `anthem {}` on raw bytes ended with exit {:?} signal {:?}\n  stderr: {}\n  bytes (lossy): {shown:?}", argv[..argv.len().min(4)].join(" "), r.code, r.signal, truncate(&r.stderr)),
            );
        }
        Outcome::pass(true, hash64(&format!("{:?}|{}", case.bytes, case.command)))
            .label(format!("command={}", case.command))
            .label(format!("utf8={}", std::str::from_utf8(&case.bytes).is_ok()))
            .label(format!("exit={:?}", r.code))
    }
    fn describe(&self, case: &BytesCase) -> Value {
        json!({"bytes": case.bytes, "command": case.command, "lossy": String::from_utf8_lossy(&case.bytes)})
    }
    fn from_replay(&self, j: &Value) -> Option<BytesCase> {
        Some(BytesCase {
            bytes: j["bytes"].as_array()?.iter().map(|x| x.as_u64().unwrap() as u8).collect(),
            command: j["command"].as_u64()? as u8,
        })
    }
}
