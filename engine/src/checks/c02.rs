//! C02 — external-equivalence obligations are refuted exactly by behavioural differences.
//! C19 — simplify / eq-break / decomposition flags never change the claim.
use crate::checks::c03::{axioms_hold_somewhere, refutes};
use crate::checks::problems::describe_external;
use crate::dom::{Interp, Val};
use crate::ext_ref;
use crate::generators::asp::{self as ga};
use crate::generators::fol::{self as g, RawInterp};
use crate::generators::task::{self as gt, Chooser, ExternalTask, Flags};
use crate::checks::c01;
use crate::checks::c05::ht_as_classical;
use crate::checks::c17::{raw_from_json, raw_json};
use crate::ir;
use std::collections::BTreeSet;
use crate::ops;
use crate::runner::{Check, Outcome, Tier, hash64};
use crate::safe_print::{self, Style};
use anthem::syntax_tree::asp::mini_gringo as asp;
use anthem::syntax_tree::fol::sigma_0 as fol;
use proptest::prelude::*;
use serde_json::{Value, json};

#[derive(Clone, Debug)]
pub struct Case {
    pub task: Vec<u16>,
    pub interp: Vec<u16>,
}

pub struct C02;

/// active values of an external task
pub fn task_pool(task: &ExternalTask) -> Vec<Val> {
    let mut rules: Vec<asp::Rule> = task.right.rules.clone();
    if let Some(p) = &task.left_program {
        rules.extend(p.rules.iter().cloned());
    }
    let mut pool = c01::program_pool(&asp::Program { rules });
    if let Some(spec) = &task.left_spec {
        let lowered: Vec<ir::Fm> = spec.formulas.iter().map(|a| ir::lower(&a.formula)).collect();
        let refs: Vec<&ir::Fm> = lowered.iter().collect();
        let sig = ir::Signature::of(&refs);
        for v in g::value_pool(&sig, &[]) {
            if !pool.contains(&v) {
                pool.push(v);
            }
        }
        pool.sort();
    }
    pool
}

impl Check for C02 {
    type Case = Case;
    fn name(&self) -> &'static str {
        "external-equivalence"
    }
    fn cases(&self, tier: Tier) -> usize {
        tier.pick(50_000, 1_000_000)
    }
    fn strategy(&self, _tier: Tier) -> BoxedStrategy<Case> {
        (gt::choices(184), gt::choices(60))
            .prop_map(|(task, interp)| Case { task, interp })
            .boxed()
    }
    fn rule(&self) -> String {
        "external task valid by construction (program vs program with the second a mutation of the first: equivalent or not, private names equal / disjoint / clashing with the _p suffix / swapped, an output predicate possibly missing from one side; or specification vs program; integer/general/symbol placeholders; user-guide assumptions) x flags x an interpretation guided by reference stable models of one side with the other side's private extents derived, 1/4 perturbed in one atom, 1/4 random; oracle: the interpretation refutes an emitted forward/backward problem (exact evaluation of the hooked syntax trees) iff it witnesses a behavioural difference by the reference semantics (stable on the axiom side's vocabulary, private extents supported, not stable on the other side / spec formulas of the direction); non-trivial = both verdicts definite and the axioms of some problem hold; distinct by task + flags + interpretation; in one case of eight every formula of every problem is also read back from the emitted TPTP text (strict reader) and must agree with its syntax tree in truth value and relation by relation".into()
    }
    fn run(&self, case: &Case) -> Outcome {
        let mut c = Chooser::new(case.task.clone());
        let task = gt::external_task(&mut c);
        let flags = gt::flags(&mut c);
        let (problems, _warnings) = match ops::external_problems(&task, &ops::empty_outline(), &flags, false) {
            Ok(x) => x,
            Err((variant, msg)) => {
                return Outcome::fail(
                    format!("valid-task-refused:{variant}"),
                    format!("C02: a task that is valid by construction was refused ({variant}): {msg}\n{}", describe_external(&task)),
                );
            }
        };
        let pool = task_pool(&task);
        let mut ci = Chooser::new(case.interp.clone());
        let names = ext_ref::discover_right_names(&task, &problems);
        let description = format!("{}\n  flags: {}", describe_external(&task), flags.describe());
        if let Some(collision) = ext_ref::name_collision(&task, &names) {
            return Outcome::fail(
                "private-name-collision",
                format!("C02: two different predicates are identified in the emitted problems: {collision}\n{description}"),
            );
        }
        let j = ext_ref::guided_interp(&task, &names, &mut ci, &pool);
        let mut labels = vec![format!("mutation={}", task.mutation)];
        let mut nontrivial = false;
        let mut definite = 0;
        for (prefix, forward, wanted) in [
            ("forward", true, matches!(flags.direction, fol::Direction::Universal | fol::Direction::Forward)),
            ("backward", false, matches!(flags.direction, fol::Direction::Universal | fol::Direction::Backward)),
        ] {
            let has = problems.iter().any(|p| p.name.starts_with(prefix));
            if !wanted {
                if has {
                    return Outcome::fail("unrequested-direction", format!("C02: {prefix} problems emitted although not requested\n{description}"));
                }
                continue;
            }
            let emitted = refutes(&problems, prefix, &j, &pool, 300_000);
            let reference = ext_ref::ref_refutes(&task, &names, &j, forward, &pool);
            match (reference, emitted) {
                (Some(a), Some(b)) if a != b => {
                    return Outcome::fail(
                        format!("refutation-mismatch:{prefix}:{}", if a { "difference-not-refuting" } else { "refuting-without-difference" }),
                        format!(
                            "C02: ({prefix}) the interpretation witnesses a behavioural difference: {a}; it refutes an emitted problem: {b}\n{description}\n  J: {}\n  problems: {}",
                            j.json(),
                            problems
                                .iter()
                                .filter(|p| p.name.starts_with(prefix))
                                .map(|p| format!("\n   {}: {}", p.name, p.formulas.iter().map(|f| format!("{}{}", if f.conjecture { "|- " } else { "" }, f.formula)).collect::<Vec<_>>().join(" ;; ")))
                                .collect::<String>()
                        ),
                    );
                }
                (Some(a), Some(_)) => {
                    definite += 1;
                    labels.push(format!("{prefix}:refuted={a}"));
                    if axioms_hold_somewhere(&problems, prefix, &j, &pool) {
                        nontrivial = true;
                        labels.push(format!("{prefix}:axioms-hold"));
                    }
                }
                _ => labels.push(format!("{prefix}:inconclusive")),
            }
        }
        // one case in eight: the verdicts above come from the syntax trees; the prover gets the text - every
        // formula as the strict TFF reader reads it must agree with its tree (truth value and relations)
        if hash64(&description) % 8 == 0 {
            for p in &problems {
                if let Some(d) = crate::checks::problems::text_disagrees(p, &j, &pool, 100_000) {
                    return Outcome::fail("text-differs-from-tree", format!("C02: {d}\n{description}\n  J: {}", j.json()));
                }
            }
            labels.push("text-read-back".into());
        }
        if definite == 0 {
            return Outcome::skip("no direction with two definite verdicts").labels(labels);
        }
        Outcome::pass(nontrivial, hash64(&format!("{description}|{:?}|{:?}", j.preds, j.fcs))).labels(labels)
    }
    fn describe(&self, case: &Case) -> Value {
        let mut c = Chooser::new(case.task.clone());
        let task = gt::external_task(&mut c);
        json!({"task": case.task, "interp": case.interp, "readable": describe_external(&task)})
    }
    fn from_replay(&self, j: &Value) -> Option<Case> {
        Some(Case {
            task: j["task"].as_array()?.iter().map(|x| x.as_u64().unwrap() as u16).collect(),
            interp: j["interp"].as_array()?.iter().map(|x| x.as_u64().unwrap() as u16).collect(),
        })
    }
}

// ---------------------------------------------------------------------------------------
// C19

#[derive(Clone, Debug)]
pub enum FlagCase {
    External { task: Vec<u16>, interp: Vec<u16> },
    Strong { left: asp::Program, right: asp::Program, mu: bool, raw: RawInterp },
}

pub struct C19;

/// The symbolic constants of an emitted problem, read as the symbols of the input files. anthem renames a
/// constant per problem: where the problem has a 0-ary predicate `z`, the symbols `z`, `z__s`, .. get one
/// more `__s`; in a problem without that predicate they keep their names. One interpretation over the
/// source symbols therefore has to be read through the problem's own renaming (C12 checks that the renaming
/// is readable at all). A constant that is still spelled like a 0-ary predicate of its problem cannot come
/// from the renaming: it is read as a symbol of its own, so that it stays distinguishable.
fn read_constants(problems: Vec<anthem::verif::ProblemData>) -> Vec<anthem::verif::ProblemData> {
    fn strip_all(s: &str) -> &str {
        let mut t = s;
        while let Some(u) = t.strip_suffix("__s") {
            t = u;
        }
        t
    }
    fn term(t: &mut fol::GeneralTerm, zero: &BTreeSet<String>) {
        if let fol::GeneralTerm::SymbolicTerm(fol::SymbolicTerm::Symbol(name)) = t {
            if zero.contains(strip_all(name)) {
                *name = match name.strip_suffix("__s") {
                    Some(shorter) => shorter.to_string(),
                    None => format!("{name}#unrenamed"),
                };
            }
        }
    }
    fn formula(f: &mut fol::Formula, zero: &BTreeSet<String>) {
        match f {
            fol::Formula::AtomicFormula(fol::AtomicFormula::Atom(a)) => a.terms.iter_mut().for_each(|t| term(t, zero)),
            fol::Formula::AtomicFormula(fol::AtomicFormula::Comparison(c)) => {
                term(&mut c.term, zero);
                c.guards.iter_mut().for_each(|g| term(&mut g.term, zero));
            }
            fol::Formula::AtomicFormula(_) => {}
            fol::Formula::UnaryFormula { formula: inner, .. } | fol::Formula::QuantifiedFormula { formula: inner, .. } => formula(inner, zero),
            fol::Formula::BinaryFormula { lhs, rhs, .. } => {
                formula(lhs, zero);
                formula(rhs, zero);
            }
        }
    }
    problems
        .into_iter()
        .map(|mut p| {
            let mut sig = ir::Signature::default();
            for f in &p.formulas {
                ir::lower(&f.formula).signature(&mut sig);
            }
            let zero: BTreeSet<String> = sig.preds.iter().filter(|q| q.1 == 0).map(|q| q.0.clone()).collect();
            if !zero.is_empty() {
                for f in p.formulas.iter_mut() {
                    formula(&mut f.formula, &zero);
                }
            }
            p
        })
        .collect()
}

fn verdicts(
    build: &dyn Fn(&Flags) -> Option<Vec<anthem::verif::ProblemData>>,
    j: &Interp,
    pool: &[Val],
) -> Vec<(String, Option<bool>, Option<bool>, bool)> {
    let mut out = vec![];
    for (sequential, simplify, eq_break) in Flags::all8() {
        let flags = Flags {
            sequential,
            direction: fol::Direction::Universal,
            simplify,
            eq_break,
        };
        let Some(problems) = build(&flags) else { continue };
        let f = refutes(&problems, "forward", j, pool, 200_000);
        let b = refutes(&problems, "backward", j, pool, 200_000);
        let holds = axioms_hold_somewhere(&problems, "forward", j, pool) || axioms_hold_somewhere(&problems, "backward", j, pool);
        out.push((flags.describe(), f, b, holds));
    }
    out
}

impl Check for C19 {
    type Case = FlagCase;
    fn name(&self) -> &'static str {
        "flag-invariance"
    }
    fn cases(&self, tier: Tier) -> usize {
        tier.pick(7_000, 80_000)
    }
    fn strategy(&self, _tier: Tier) -> BoxedStrategy<FlagCase> {
        let c = c01::cfg();
        prop_oneof![
            3 => (gt::choices(184), gt::choices(60)).prop_map(|(task, interp)| FlagCase::External { task, interp }),
            2 => (ga::program(&c), ga::shaped_program(&c, 1), any::<bool>(), g::raw_interp(5, 0, 2, 5))
                .prop_map(|(left, right, mu, raw)| FlagCase::Strong { left, right, mu, raw }),
            // rules with three arithmetic / interval terms in one atom (several fresh variables of one
            // letter in one block of the simplified formulas)
            1 => (crate::checks::c07::wide_arith_rule(), crate::checks::c07::wide_arith_rule(), any::<bool>(), g::raw_interp(5, 0, 2, 5))
                .prop_map(|(l, r, mu, raw)| FlagCase::Strong { left: asp::Program { rules: vec![l] }, right: asp::Program { rules: vec![r] }, mu, raw }),
        ]
        .boxed()
    }
    fn rule(&self) -> String {
        "external tasks (as in C02; one in three over the tricky names of C09/C12, where a symbolic constant is renamed because of a 0-ary predicate - constants are read per problem as the source symbols they stand for; comparisons also with the constant as leading term) and strong tasks over unrestricted random programs (unsafe rules, nested arithmetic) x one interpretation (guided as in C02; for strong tasks a random interpretation of the h-/t-copies with H subset-of T, in one case of three with the two copies of one predicate exchanged so that H is not a subset of T); the problems are generated under all 8 combinations of simplify / eq-break / decomposition; oracle: for each direction the verdict 'some problem has all axioms true and its conjecture false' (exact evaluation) is the same under every combination whenever definite; non-trivial = the axioms of some problem hold under some combination; distinct by task + interpretation".into()
    }
    fn run(&self, case: &FlagCase) -> Outcome {
        let (vs, description, jtext) = match case {
            FlagCase::External { task, interp } => {
                let mut c = Chooser::new(task.clone());
                // one task in three uses the tricky names of C09/C12 (a symbolic constant spelled like a
                // 0-ary predicate, which anthem renames in every problem): the flags must not matter
                // there either (choice vectors shorter than 184 predate this)
                let mut t = if task.len() >= 184 && c.aux(131, 3) == 0 {
                    let names = gt::Names::tricky(&mut c);
                    gt::external_task_with(&mut c, names)
                } else {
                    gt::external_task(&mut c)
                };
                // a task whose names include the 0-ary predicate z next to the symbolic constant z gets one more
                // rule that compares with that constant, written with the constant first or last, in the second
                // program (or in both): `o(X) :- in(X), z != X.`
                if t.names.outputs.iter().any(|p| p.0 == "z" && p.1 == 0) && t.names.symbols.iter().any(|s| s == "z") {
                    let o = t.names.outputs.iter().find(|p| p.1 == 1).map(|p| p.0.clone());
                    let i = t.names.inputs.iter().find(|p| p.1 == 1).map(|p| p.0.clone());
                    if let (Some(o), Some(i)) = (o, i) {
                        let cmp = ["z != X", "X != z", "z = X", "z < X", "z >= X"][c.aux(132, 5)];
                        if let Ok(rule) = format!("{o}(X) :- {i}(X), {cmp}.").parse::<asp::Rule>() {
                            t.right.rules.push(rule.clone());
                            if c.aux(133, 3) == 0 {
                                if let Some(p) = t.left_program.as_mut() {
                                    p.rules.push(rule);
                                }
                            }
                        }
                    }
                }
                // one task in four also has a public ternary predicate defined through three arithmetic
                // terms at once: o3(X+1, Y+2, W*2) :- in3(X, Y, W).  (several fresh variables of one
                // letter in one block of the completed definition); same rule on both sides
                let wide = c.aux(91, 4) == 0;
                if wide {
                    let rule: asp::Rule = ["o3(X+1,Y+2,W+1) :- in3(X,Y,W).", "o3(X+1,Y+1,2*W) :- in3(X,Y,W).", "o3(W+1,X+1,Y+3) :- in3(X,Y,W), X != Y."][c.aux(92, 3)]
                        .parse()
                        .expect("wide rule");
                    t.right.rules.push(rule.clone());
                    if let Some(p) = t.left_program.as_mut() {
                        p.rules.push(rule);
                    }
                    t.user_guide.entries.push(fol::UserGuideEntry::InputPredicate(fol::Predicate { symbol: "in3".into(), arity: 3 }));
                    t.user_guide.entries.push(fol::UserGuideEntry::OutputPredicate(fol::Predicate { symbol: "o3".into(), arity: 3 }));
                }
                let pool = task_pool(&t);
                let mut ci = Chooser::new(interp.clone());
                let flags0 = Flags { sequential: true, direction: fol::Direction::Universal, simplify: false, eq_break: false };
                let names = match ops::external_problems(&t, &ops::empty_outline(), &flags0, false) {
                    Ok((ps, _)) => ext_ref::discover_right_names(&t, &ps),
                    Err(_) => return Outcome::skip("task refused"),
                };
                let mut j = ext_ref::guided_interp(&t, &names, &mut ci, &pool);
                if wide {
                    // any interpretation is admissible for this metamorphic check: a few integer triples for
                    // in3 and, for o3, mostly the triples the rule derives (so that the definitions hold)
                    for k in 0..1 + ci.aux(93, 3) {
                        let (x, y, w) = (ci.aux(94 + k as u64, 4) as i128, ci.aux(104 + k as u64, 4) as i128, ci.aux(114 + k as u64, 4) as i128);
                        j.insert("in3", vec![Val::Int(x), Val::Int(y), Val::Int(w)]);
                        match ci.aux(124 + k as u64, 4) {
                            0 => {}
                            1 => j.insert("o3", vec![Val::Int(x + 1), Val::Int(y + 1), Val::Int(w + 1)]),
                            2 => j.insert("o3", vec![Val::Int(x + 1), Val::Int(y + 2), Val::Int(w + 1)]),
                            _ => j.insert("o3", vec![Val::Int(x + 1), Val::Int(y + 1), Val::Int(2 * w)]),
                        }
                    }
                    j.preds.entry(("in3".to_string(), 3)).or_default();
                    j.preds.entry(("o3".to_string(), 3)).or_default();
                }
                let build = |flags: &Flags| ops::external_problems(&t, &ops::empty_outline(), flags, false).ok().map(|x| read_constants(x.0));
                (verdicts(&build, &j, &pool), describe_external(&t), j.json().to_string())
            }
            FlagCase::Strong { left, right, mu, raw } => {
                let both = asp::Program {
                    rules: left.rules.iter().chain(right.rules.iter()).cloned().collect(),
                };
                if both.rules.is_empty() {
                    return Outcome::skip("empty programs");
                }
                let pool = c01::program_pool(&both);
                let preds = c01::program_preds(&both);
                let (h, t) = g::build_interp(raw, &preds, &[], &pool);
                let mut j = ht_as_classical(&h, &t);
                // the property ranges over all interpretations of the h-/t-copies, not only those
                // with H subset-of T: in one case of three the extents of the two copies of one
                // predicate are exchanged (decided from the raw interpretation itself)
                let selector: usize = raw.tuples.iter().flatten().flatten().map(|x| *x as usize).sum();
                if selector % 3 == 0 && !preds.is_empty() {
                    let (n, a) = preds[(selector / 3) % preds.len()].clone();
                    let hk = (format!("h{n}"), a);
                    let tk = (format!("t{n}"), a);
                    let he = j.preds.remove(&hk).unwrap_or_default();
                    let te = j.preds.remove(&tk).unwrap_or_default();
                    j.preds.insert(hk, te);
                    j.preds.insert(tk, he);
                }
                let build = |flags: &Flags| Some(ops::strong_problems(left, right, flags, *mu));
                (
                    verdicts(&build, &j, &pool),
                    format!(
                        "strong equivalence mu={mu}\n  left: {}\n  right: {}",
                        safe_print::asp_program(left, &Style::plain()),
                        safe_print::asp_program(right, &Style::plain())
                    ),
                    j.json().to_string(),
                )
            }
        };
        if vs.len() < 8 {
            return Outcome::skip("task refused under some flag combination");
        }
        let mut nontrivial = false;
        for dir in 0..2 {
            let name = if dir == 0 { "forward" } else { "backward" };
            let definite: Vec<(&String, bool)> = vs
                .iter()
                .filter_map(|v| (if dir == 0 { v.1 } else { v.2 }).map(|b| (&v.0, b)))
                .collect();
            if let Some((first_flags, first)) = definite.first() {
                if let Some((other_flags, other)) = definite.iter().find(|(_, b)| b != first) {
                    return Outcome::fail(
                        format!("flags-change-claim:{name}"),
                        format!(
                            "C19: ({name}) the interpretation refutes the problems generated with [{}]: {first}, but with [{}]: {other}\n{description}\n  J: {jtext}",
                            first_flags, other_flags
                        ),
                    );
                }
            }
        }
        if vs.iter().any(|v| v.3) {
            nontrivial = true;
        }
        let definite_count = vs.iter().filter(|v| v.1.is_some() && v.2.is_some()).count();
        if definite_count < 2 {
            return Outcome::skip("fewer than two combinations with definite verdicts");
        }
        Outcome::pass(nontrivial, hash64(&format!("{description}|{jtext}")))
            .label(format!("definite-combinations={definite_count}"))
            .label(match case {
                FlagCase::External { .. } => "external",
                FlagCase::Strong { .. } => "strong",
            })
    }
    fn describe(&self, case: &FlagCase) -> Value {
        match case {
            FlagCase::External { task, interp } => {
                let mut c = Chooser::new(task.clone());
                let t = if task.len() >= 184 && c.aux(131, 3) == 0 {
                    let names = gt::Names::tricky(&mut c);
                    gt::external_task_with(&mut c, names)
                } else {
                    gt::external_task(&mut c)
                };
                json!({"kind": "external", "task": task, "interp": interp, "readable": describe_external(&t)})
            }
            FlagCase::Strong { left, right, mu, raw } => json!({
                "kind": "strong",
                "left": safe_print::asp_program(left, &Style::plain()),
                "right": safe_print::asp_program(right, &Style::plain()),
                "mu": mu, "raw": raw_json(raw),
            }),
        }
    }
    fn from_replay(&self, j: &Value) -> Option<FlagCase> {
        match j["kind"].as_str()? {
            "external" => Some(FlagCase::External {
                task: j["task"].as_array()?.iter().map(|x| x.as_u64().unwrap() as u16).collect(),
                interp: j["interp"].as_array()?.iter().map(|x| x.as_u64().unwrap() as u16).collect(),
            }),
            _ => Some(FlagCase::Strong {
                left: j["left"].as_str()?.parse().ok()?,
                right: j["right"].as_str()?.parse().ok()?,
                mu: j["mu"].as_bool()?,
                raw: raw_from_json(&j["raw"])?,
            }),
        }
    }
}
