//! Standard domain: #inf < integers < symbolic constants < #sup.
use std::collections::{BTreeMap, BTreeSet};

#[derive(Clone, Debug, PartialEq, Eq, Hash, PartialOrd, Ord)]
pub enum Val {
    Inf,
    Int(i128),
    Sym(String),
    Sup,
}

impl Val {
    pub fn int(&self) -> Option<i128> {
        match self {
            Val::Int(n) => Some(*n),
            _ => None,
        }
    }
    pub fn text(&self) -> String {
        match self {
            Val::Inf => "#inf".into(),
            Val::Sup => "#sup".into(),
            Val::Int(n) => n.to_string(),
            Val::Sym(s) => s.clone(),
        }
    }
    pub fn json(&self) -> serde_json::Value {
        serde_json::Value::String(self.text())
    }
    pub fn parse(s: &str) -> Val {
        match s {
            "#inf" => Val::Inf,
            "#sup" => Val::Sup,
            _ => match s.parse::<i128>() {
                Ok(n) => Val::Int(n),
                Err(_) => Val::Sym(s.to_string()),
            },
        }
    }
}

#[derive(Clone, Copy, Debug, PartialEq, Eq, Hash, PartialOrd, Ord)]
pub enum Sort {
    G,
    I,
    S,
}

impl Sort {
    pub fn admits(&self, v: &Val) -> bool {
        match self {
            Sort::G => true,
            Sort::I => matches!(v, Val::Int(_)),
            Sort::S => matches!(v, Val::Sym(_)),
        }
    }
    pub fn letter(&self) -> &'static str {
        match self {
            Sort::G => "g",
            Sort::I => "i",
            Sort::S => "s",
        }
    }
}

pub type PredKey = (String, usize);
pub type Tuple = Vec<Val>;

/// A classical interpretation with finite predicate extents and values for function constants.
#[derive(Clone, Debug, Default, PartialEq, Eq)]
pub struct Interp {
    pub preds: BTreeMap<PredKey, BTreeSet<Tuple>>,
    pub fcs: BTreeMap<(String, Sort), Val>,
}

static EMPTY: BTreeSet<Tuple> = BTreeSet::new();

impl Interp {
    pub fn ext(&self, name: &str, arity: usize) -> &BTreeSet<Tuple> {
        self.preds
            .get(&(name.to_string(), arity))
            .unwrap_or(&EMPTY)
    }
    pub fn holds(&self, name: &str, args: &[Val]) -> bool {
        self.ext(name, args.len()).contains(args)
    }
    pub fn insert(&mut self, name: &str, args: Tuple) {
        self.preds
            .entry((name.to_string(), args.len()))
            .or_default()
            .insert(args);
    }
    pub fn subset_of(&self, other: &Interp) -> bool {
        self.preds
            .iter()
            .all(|(k, ext)| ext.iter().all(|t| other.preds.get(k).is_some_and(|o| o.contains(t))))
    }
    pub fn atoms(&self) -> Vec<(PredKey, Tuple)> {
        let mut r = vec![];
        for (k, e) in &self.preds {
            for t in e {
                r.push((k.clone(), t.clone()));
            }
        }
        r
    }
    pub fn json(&self) -> serde_json::Value {
        let mut m = serde_json::Map::new();
        for (k, e) in &self.preds {
            let tuples: Vec<serde_json::Value> = e
                .iter()
                .map(|t| serde_json::Value::Array(t.iter().map(|v| v.json()).collect()))
                .collect();
            m.insert(format!("{}/{}", k.0, k.1), serde_json::Value::Array(tuples));
        }
        let mut f = serde_json::Map::new();
        for ((n, s), v) in &self.fcs {
            f.insert(format!("{}${}", n, s.letter()), v.json());
        }
        serde_json::json!({"preds": m, "fcs": f})
    }
    pub fn from_json(j: &serde_json::Value) -> Interp {
        let mut i = Interp::default();
        if let Some(m) = j.get("preds").and_then(|x| x.as_object()) {
            for (k, e) in m {
                let (n, a) = k.rsplit_once('/').unwrap();
                let key = (n.to_string(), a.parse::<usize>().unwrap());
                let set = i.preds.entry(key).or_default();
                for t in e.as_array().unwrap() {
                    set.insert(
                        t.as_array()
                            .unwrap()
                            .iter()
                            .map(|v| Val::parse(v.as_str().unwrap()))
                            .collect(),
                    );
                }
            }
        }
        if let Some(m) = j.get("fcs").and_then(|x| x.as_object()) {
            for (k, v) in m {
                let (n, s) = k.rsplit_once('$').unwrap();
                let s = match s {
                    "g" => Sort::G,
                    "i" => Sort::I,
                    _ => Sort::S,
                };
                i.fcs.insert((n.to_string(), s), Val::parse(v.as_str().unwrap()));
            }
        }
        i
    }
}
