//! Campaign runner: sharded proptest generation, shrinking, known findings, evidence.
use proptest::strategy::{BoxedStrategy, Strategy, ValueTree};
use proptest::test_runner::{Config, RngAlgorithm, RngSeed, TestRng, TestRunner};
use serde_json::{Value, json};
use sha2::{Digest, Sha256};
use std::collections::{BTreeMap, BTreeSet};
use std::fmt::Debug;
use std::panic::{AssertUnwindSafe, catch_unwind};
use std::path::PathBuf;
use std::sync::Mutex;
use std::time::Instant;

#[derive(Clone, Copy, Debug, PartialEq, Eq)]
pub enum Tier {
    Quick,
    Thorough,
}

impl Tier {
    pub fn pick(&self, quick: usize, thorough: usize) -> usize {
        match self {
            Tier::Quick => quick,
            Tier::Thorough => thorough,
        }
    }
    pub fn name(&self) -> &'static str {
        match self {
            Tier::Quick => "quick",
            Tier::Thorough => "thorough",
        }
    }
}

#[derive(Clone, Debug)]
pub struct Failure {
    /// classification of the violation, narrow enough to key a known finding on
    pub signature: String,
    pub message: String,
}

#[derive(Clone, Debug)]
pub enum Verdict {
    Pass,
    /// the case could not be decided (oracle unknown, input rejected, too large): counted, never reported
    Skip(&'static str),
    Fail(Failure),
}

#[derive(Clone, Debug)]
pub struct Outcome {
    pub verdict: Verdict,
    pub nontrivial: bool,
    /// hash of the canonical case text (distinctness)
    pub key: u64,
    pub labels: Vec<String>,
    /// a human-readable rendering of what the case was decoded to (for evidence samples)
    pub readable: Option<String>,
}

impl Outcome {
    pub fn pass(nontrivial: bool, key: u64) -> Outcome {
        Outcome {
            verdict: Verdict::Pass,
            nontrivial,
            key,
            labels: vec![],
            readable: None,
        }
    }
    pub fn skip(why: &'static str) -> Outcome {
        Outcome {
            verdict: Verdict::Skip(why),
            nontrivial: false,
            key: 0,
            labels: vec![],
            readable: None,
        }
    }
    pub fn fail(signature: impl Into<String>, message: impl Into<String>) -> Outcome {
        Outcome {
            verdict: Verdict::Fail(Failure {
                signature: signature.into(),
                message: message.into(),
            }),
            nontrivial: true,
            key: 0,
            labels: vec![],
            readable: None,
        }
    }
    pub fn readable(mut self, text: impl Into<String>) -> Outcome {
        self.readable = Some(text.into());
        self
    }
    pub fn label(mut self, l: impl Into<String>) -> Outcome {
        self.labels.push(l.into());
        self
    }
    pub fn labels(mut self, ls: impl IntoIterator<Item = String>) -> Outcome {
        self.labels.extend(ls);
        self
    }
}

pub fn hash64(s: &str) -> u64 {
    let d = Sha256::digest(s.as_bytes());
    u64::from_le_bytes(d[..8].try_into().unwrap())
}

pub trait Check: Sync {
    type Case: Clone + Debug + Send + Sync;
    fn name(&self) -> &'static str;
    fn strategy(&self, tier: Tier) -> BoxedStrategy<Self::Case>;
    fn cases(&self, tier: Tier) -> usize;
    fn run(&self, case: &Self::Case) -> Outcome;
    /// replayable description of the case (plain data)
    fn describe(&self, case: &Self::Case) -> Value;
    fn from_replay(&self, j: &Value) -> Option<Self::Case>;
    /// what makes a case non-trivial / distinct (for the evidence file)
    fn rule(&self) -> String;
    fn shards(&self) -> usize {
        16
    }
    /// deterministic extra cases run before the random campaign (directed corners)
    fn directed(&self) -> Vec<Self::Case> {
        vec![]
    }
    /// a bounded space enumerated completely (run before the random campaign, spread over the shards)
    fn exhaustive(&self, _tier: Tier) -> Vec<Self::Case> {
        vec![]
    }
    /// maximal number of re-executions spent on shrinking one failure
    fn shrink_steps(&self) -> usize {
        1500
    }
}

#[derive(Clone, Debug, Default)]
pub struct PartReport {
    pub name: String,
    pub evaluations: u64,
    pub nontrivial_keys: BTreeSet<u64>,
    pub labels: BTreeMap<String, u64>,
    pub skips: BTreeMap<String, u64>,
    pub samples: Vec<Value>,
    pub known_hits: BTreeMap<String, (u64, Value)>,
    pub violation: Option<(Failure, Value)>,
    pub internal_errors: Vec<String>,
    pub rule: String,
    pub extra: BTreeMap<String, Value>,
}

pub trait Part: Sync {
    fn name(&self) -> &'static str;
    fn campaign(&self, ctx: &Ctx) -> PartReport;
    /// Some(outcome) if this part understands the replay file
    fn replay(&self, j: &Value) -> Option<Outcome>;
}

#[derive(Clone, Debug)]
pub struct Ctx {
    pub property: String,
    pub tier: Tier,
    pub seed: u64,
    /// signatures of open known findings for this property
    pub known_open: BTreeSet<String>,
    pub root: PathBuf,
}

pub struct Campaign<C: Check>(pub C);

thread_local! {
    pub static LAST_PANIC: std::cell::RefCell<Option<(String, String)>> = const { std::cell::RefCell::new(None) };
}

pub fn install_panic_hook() {
    std::panic::set_hook(Box::new(|info| {
        let loc = info
            .location()
            .map(|l| format!("{}:{}", l.file(), l.line()))
            .unwrap_or_default();
        let msg = if let Some(s) = info.payload().downcast_ref::<&str>() {
            s.to_string()
        } else if let Some(s) = info.payload().downcast_ref::<String>() {
            s.clone()
        } else {
            "<non-string panic>".to_string()
        };
        // a panic raised inside the standard library (e.g. arithmetic overflow in `abs`) is
        // attributed to the innermost frame that belongs to anthem or to the harness
        let loc = if loc.starts_with("/repo/") || loc.starts_with("src/") || loc.starts_with("/verif/") {
            loc
        } else {
            let bt = std::backtrace::Backtrace::force_capture().to_string();
            let mut found = None;
            let mut started = false;
            for line in bt.lines() {
                let line = line.trim();
                if line.contains("core::panicking::") || line.contains("rust_begin_unwind") {
                    started = true;
                    continue;
                }
                if !started {
                    continue;
                }
                if let Some(rest) = line.strip_prefix("at ") {
                    if rest.starts_with("/repo/src/") {
                        found = Some(rest.to_string());
                        break;
                    }
                    if rest.starts_with("./src/") || rest.starts_with("/verif/") {
                        found = Some(format!("harness:{rest}"));
                        break;
                    }
                }
            }
            found.unwrap_or(loc)
        };
        LAST_PANIC.with(|p| *p.borrow_mut() = Some((loc, msg)));
    }));
}

/// Result of running anthem code under catch_unwind.
pub enum Caught<T> {
    Ok(T),
    /// panic raised inside anthem's sources (location under /repo)
    AnthemPanic { location: String, message: String },
    /// panic raised by the harness itself or a dependency: an internal error, never a violation
    OtherPanic { location: String, message: String },
}

pub fn guarded<T>(f: impl FnOnce() -> T) -> Caught<T> {
    LAST_PANIC.with(|p| *p.borrow_mut() = None);
    match catch_unwind(AssertUnwindSafe(f)) {
        Ok(v) => Caught::Ok(v),
        Err(_) => {
            let (location, message) = LAST_PANIC
                .with(|p| p.borrow_mut().take())
                .unwrap_or_default();
            if location.starts_with("/repo/") {
                Caught::AnthemPanic { location, message }
            } else {
                Caught::OtherPanic { location, message }
            }
        }
    }
}

// ---------------------------------------------------------------------------------------
// watchdog: a case that runs for longer than VERIF_WATCHDOG_S seconds (default 900) - an endless loop
// in the code under test reached in-process, or in the harness - ends the whole run with exit status 2
// (inconclusive); it is never reported as a violation

static WATCHED: std::sync::OnceLock<Mutex<BTreeMap<u64, (std::time::Instant, &'static str, String)>>> = std::sync::OnceLock::new();
static WATCH_ID: std::sync::atomic::AtomicU64 = std::sync::atomic::AtomicU64::new(0);

struct Watch(u64);

impl Watch {
    fn start(part: &'static str, describe: impl FnOnce() -> String) -> Watch {
        let id = WATCH_ID.fetch_add(1, std::sync::atomic::Ordering::Relaxed);
        // the description is only rendered for every 64th case (cheap enough, and a hang that
        // reproduces is found again); others carry the part name only
        // (the termination check of C18 records every case: a stuck case is its finding)
        let text = if id % 64 == 0 || part == "fixpoint" { describe().chars().take(20_000).collect() } else { String::new() };
        let map = WATCHED.get_or_init(|| {
            std::thread::spawn(watchdog);
            Mutex::new(BTreeMap::new())
        });
        map.lock().unwrap().insert(id, (std::time::Instant::now(), part, text));
        Watch(id)
    }
}

impl Drop for Watch {
    fn drop(&mut self) {
        if let Some(m) = WATCHED.get() {
            m.lock().unwrap().remove(&self.0);
        }
    }
}

fn watchdog() {
    let limit: u64 = std::env::var("VERIF_WATCHDOG_S").ok().and_then(|s| s.parse().ok()).unwrap_or(900);
    loop {
        std::thread::sleep(std::time::Duration::from_secs(5));
        if let Some(m) = WATCHED.get() {
            // C18's termination part: a case that has been running for two minutes is confirmed through the
            // real binary under a time limit; a run that does not finish there either is the violation
            let suspect = m.lock().unwrap().values().find(|(t, p, _)| *p == "fixpoint" && t.elapsed().as_secs() > 120).cloned();
            if let Some((_, _, text)) = suspect {
                if let Some(message) = crate::checks::c18::confirm_nontermination(&text) {
                    let root = std::env::var("VERIF_ROOT").unwrap_or_else(|_| ".".into());
                    let dir = std::path::Path::new(&root).join("target").join("replays").join("C18");
                    let _ = std::fs::create_dir_all(&dir);
                    let case: Value = serde_json::from_str(&text).unwrap_or(Value::Null);
                    let body = json!({"property": "C18", "part": "fixpoint", "signature": "does-not-terminate", "message": message, "case": case});
                    let body = serde_json::to_string_pretty(&body).unwrap();
                    let path = dir.join(format!("{:016x}.json", hash64(&body)));
                    let _ = std::fs::write(&path, &body);
                    println!("{message}");
                    println!("signature: does-not-terminate");
                    println!("VIOLATION property=C18 replay={}", path.display());
                    std::process::exit(1);
                }
            }
            let stuck = m.lock().unwrap().values().find(|(t, _, _)| t.elapsed().as_secs() > limit).cloned();
            if let Some((t, part, text)) = stuck {
                eprintln!(
                    "INCONCLUSIVE: watchdog: a case of part {part} has been running for {} s (an endless loop reached in-process or a hang of the harness); case: {}",
                    t.elapsed().as_secs(),
                    if text.is_empty() { "(not recorded)" } else { &text }
                );
                std::process::exit(2);
            }
        }
    }
}

fn shard_seed(seed: u64, property: &str, part: &str, shard: usize) -> [u8; 32] {
    let mut h = Sha256::new();
    h.update(seed.to_le_bytes());
    h.update(property.as_bytes());
    h.update(part.as_bytes());
    h.update((shard as u64).to_le_bytes());
    h.finalize().into()
}

struct ShardResult {
    evaluations: u64,
    keys: BTreeSet<u64>,
    labels: BTreeMap<String, u64>,
    skips: BTreeMap<String, u64>,
    samples: Vec<Value>,
    known_hits: BTreeMap<String, (u64, Value)>,
    violation: Option<(Failure, Value)>,
    internal: Vec<String>,
}

impl<C: Check> Campaign<C> {
    fn run_one(&self, case: &C::Case) -> Result<Outcome, String> {
        let _watch = Watch::start(self.0.name(), || format!("{}", self.0.describe(case)));
        match guarded(|| self.0.run(case)) {
            Caught::Ok(o) => Ok(o),
            Caught::AnthemPanic { location, message } => Ok(Outcome::fail(
                format!("panic:{}", strip_line(&location)),
                format!("anthem panicked at {location}: {message}"),
            )),
            Caught::OtherPanic { location, message } => {
                Err(format!("harness panic at {location}: {message}"))
            }
        }
    }

    fn shard(&self, ctx: &Ctx, shard: usize, count: usize, directed: &[C::Case]) -> ShardResult {
        let mut res = ShardResult {
            evaluations: 0,
            keys: BTreeSet::new(),
            labels: BTreeMap::new(),
            skips: BTreeMap::new(),
            samples: vec![],
            known_hits: BTreeMap::new(),
            violation: None,
            internal: vec![],
        };
        let config = Config {
            failure_persistence: None,
            ..Config::default()
        };
        let rng = TestRng::from_seed(
            RngAlgorithm::ChaCha,
            &shard_seed(ctx.seed, &ctx.property, self.0.name(), shard),
        );
        let _ = RngSeed::Random;
        let mut runner = TestRunner::new_with_rng(config, rng);
        let strategy = self.0.strategy(ctx.tier);
        let total = directed.len() + count;
        for i in 0..total {
            let (case, mut tree) = if i < directed.len() {
                (directed[i].clone(), None)
            } else {
                match strategy.new_tree(&mut runner) {
                    Ok(t) => (t.current(), Some(t)),
                    Err(e) => {
                        res.internal.push(format!("generator failure: {e}"));
                        break;
                    }
                }
            };
            res.evaluations += 1;
            let outcome = match self.run_one(&case) {
                Ok(o) => o,
                Err(e) => {
                    res.internal.push(format!("{e}; case: {}", self.0.describe(&case)));
                    if res.internal.len() > 3 {
                        break;
                    }
                    continue;
                }
            };
            for l in &outcome.labels {
                *res.labels.entry(l.clone()).or_default() += 1;
            }
            match &outcome.verdict {
                Verdict::Pass => {
                    if outcome.nontrivial {
                        let fresh = res.keys.insert(outcome.key);
                        if fresh && res.samples.len() < 2 && (shard < 3) {
                            let mut d = self.0.describe(&case);
                            if let (Some(r), Some(obj)) = (&outcome.readable, d.as_object_mut()) {
                                obj.insert("decoded".into(), Value::String(r.chars().take(3000).collect()));
                            }
                            res.samples.push(d);
                        }
                    }
                }
                Verdict::Skip(why) => {
                    *res.skips.entry(why.to_string()).or_default() += 1;
                }
                Verdict::Fail(f) => {
                    if ctx.known_open.contains(&f.signature) {
                        let e = res
                            .known_hits
                            .entry(f.signature.clone())
                            .or_insert_with(|| (0, self.0.describe(&case)));
                        e.0 += 1;
                        continue;
                    }
                    // shrink, keeping the same signature
                    let mut best = (case.clone(), f.clone());
                    if let Some(tree) = tree.as_mut() {
                        let mut steps = 0;
                        let max_steps = self.0.shrink_steps();
                        'outer: while steps < max_steps && tree.simplify() {
                            loop {
                                steps += 1;
                                let c = tree.current();
                                let still = match self.run_one(&c) {
                                    Ok(Outcome {
                                        verdict: Verdict::Fail(g),
                                        ..
                                    }) if g.signature == f.signature => Some(g),
                                    _ => None,
                                };
                                match still {
                                    Some(g) => {
                                        best = (c, g);
                                        break;
                                    }
                                    None => {
                                        if steps >= max_steps || !tree.complicate() {
                                            break 'outer;
                                        }
                                    }
                                }
                            }
                        }
                    }
                    res.violation = Some((best.1, self.0.describe(&best.0)));
                    break;
                }
            }
        }
        res
    }
}

fn strip_line(loc: &str) -> String {
    // "/repo/src/x.rs:12:5" or "/repo/src/x.rs:12" -> "/repo/src/x.rs"
    loc.split(':').next().unwrap_or(loc).to_string()
}

impl<C: Check> Part for Campaign<C> {
    fn name(&self) -> &'static str {
        self.0.name()
    }

    fn campaign(&self, ctx: &Ctx) -> PartReport {
        let shards = self.0.shards().max(1);
        let total = self.0.cases(ctx.tier);
        let per = total.div_ceil(shards);
        let directed = self.0.directed();
        let exhaustive = self.0.exhaustive(ctx.tier);
        let exhaustive_count = exhaustive.len();
        let results: Mutex<Vec<(usize, ShardResult)>> = Mutex::new(vec![]);
        std::thread::scope(|s| {
            for shard in 0..shards {
                let results = &results;
                let directed = &directed;
                let exhaustive = &exhaustive;
                let ctx = ctx.clone();
                std::thread::Builder::new()
                    .stack_size(512 << 20)
                    .spawn_scoped(s, move || {
                        install_panic_hook();
                        let mut d: Vec<C::Case> = if shard == 0 { directed.clone() } else { vec![] };
                        d.extend(exhaustive.iter().enumerate().filter(|(i, _)| i % shards == shard).map(|(_, c)| c.clone()));
                        let r = self.shard(&ctx, shard, per, &d);
                        results.lock().unwrap().push((shard, r));
                    })
                    .unwrap();
            }
        });
        let mut results = results.into_inner().unwrap();
        results.sort_by_key(|x| x.0);
        let mut rep = PartReport {
            name: self.0.name().to_string(),
            rule: self.0.rule(),
            ..Default::default()
        };
        if exhaustive_count > 0 {
            rep.extra.insert("exhaustively_enumerated_cases".into(), json!(exhaustive_count));
        }
        for (_, r) in results {
            rep.evaluations += r.evaluations;
            rep.nontrivial_keys.extend(r.keys);
            for (k, v) in r.labels {
                *rep.labels.entry(k).or_default() += v;
            }
            for (k, v) in r.skips {
                *rep.skips.entry(k).or_default() += v;
            }
            rep.samples.extend(r.samples);
            for (k, (n, v)) in r.known_hits {
                let e = rep.known_hits.entry(k).or_insert((0, v));
                e.0 += n;
            }
            if rep.violation.is_none() {
                rep.violation = r.violation;
            }
            rep.internal_errors.extend(r.internal);
        }
        rep
    }

    fn replay(&self, j: &Value) -> Option<Outcome> {
        if j.get("part").and_then(|x| x.as_str()) != Some(self.0.name()) {
            return None;
        }
        let case = self.0.from_replay(j.get("case")?)?;
        Some(match self.run_one(&case) {
            Ok(o) => o,
            Err(e) => Outcome::skip(Box::leak(e.into_boxed_str())),
        })
    }
}

// ---------------------------------------------------------------------------------------
// property-level driver

#[derive(Clone, Debug)]
pub struct KnownFinding {
    pub property: String,
    pub signature: String,
    pub status: String,
    pub what: String,
    pub replay: Option<Value>,
}

pub fn load_known(root: &std::path::Path) -> Vec<KnownFinding> {
    let p = root.join("known_findings.json");
    let Ok(text) = std::fs::read_to_string(&p) else {
        return vec![];
    };
    let j: Value = serde_json::from_str(&text).expect("known_findings.json is valid JSON");
    j.get("findings")
        .and_then(|x| x.as_array())
        .cloned()
        .unwrap_or_default()
        .iter()
        .map(|f| KnownFinding {
            property: f["property"].as_str().unwrap_or("").to_string(),
            signature: f["signature"].as_str().unwrap_or("").to_string(),
            status: f["status"].as_str().unwrap_or("open").to_string(),
            what: f["what"].as_str().unwrap_or("").to_string(),
            replay: f.get("replay").cloned(),
        })
        .collect()
}

pub struct PropertyRun {
    pub id: String,
    pub parts: Vec<Box<dyn Part>>,
    pub assumptions: Vec<String>,
}

/// returns the process exit code
pub fn run_property(p: &PropertyRun, tier: Tier, seed: u64, root: &std::path::Path) -> i32 {
    let start = Instant::now();
    let known = load_known(root);
    let known_open: BTreeSet<String> = known
        .iter()
        .filter(|k| k.property == p.id && k.status == "open")
        .map(|k| k.signature.clone())
        .collect();
    let ctx = Ctx {
        property: p.id.clone(),
        tier,
        seed,
        known_open: known_open.clone(),
        root: root.to_path_buf(),
    };
    let mut exit = 0;
    let mut reports = vec![];
    let mut violations = 0;
    let mut confirmed_known: BTreeSet<String> = BTreeSet::new();

    // regression replays (fixed findings and earlier shrunk failures) and known-finding confirmations
    let regress_dir = root.join("regress").join(&p.id);
    let mut regress_run = 0u64;
    if let Ok(rd) = std::fs::read_dir(&regress_dir) {
        let mut files: Vec<_> = rd.filter_map(|e| e.ok()).map(|e| e.path()).collect();
        files.sort();
        for f in files {
            if f.extension().and_then(|x| x.to_str()) != Some("json") {
                continue;
            }
            let Ok(text) = std::fs::read_to_string(&f) else { continue };
            let Ok(j) = serde_json::from_str::<Value>(&text) else {
                eprintln!("INTERNAL: unreadable regression file {}", f.display());
                exit = 2;
                continue;
            };
            let mut handled = false;
            for part in &p.parts {
                if let Some(o) = part.replay(&j) {
                    handled = true;
                    regress_run += 1;
                    if let Verdict::Fail(fl) = &o.verdict {
                        if known_open.contains(&fl.signature) {
                            confirmed_known.insert(fl.signature.clone());
                        } else {
                            println!("{}", fl.message);
                            println!("VIOLATION property={} replay={}", p.id, f.display());
                            violations += 1;
                            exit = 1;
                        }
                    }
                }
            }
            if !handled {
                eprintln!("INTERNAL: no part understands {}", f.display());
                exit = 2;
            }
        }
    }

    for part in &p.parts {
        let rep = part.campaign(&ctx);
        for e in &rep.internal_errors {
            eprintln!("INTERNAL[{}:{}]: {}", p.id, rep.name, e);
            if exit == 0 {
                exit = 2;
            }
        }
        if let Some((f, case)) = &rep.violation {
            violations += 1;
            let dir = root.join("target").join("replays").join(&p.id);
            let _ = std::fs::create_dir_all(&dir);
            let body = json!({"property": p.id, "part": rep.name, "signature": f.signature, "message": f.message, "case": case});
            let text = serde_json::to_string_pretty(&body).unwrap();
            let path = dir.join(format!("{:016x}.json", hash64(&text)));
            let _ = std::fs::write(&path, &text);
            println!("{}", f.message);
            println!("signature: {}", f.signature);
            println!("VIOLATION property={} replay={}", p.id, path.display());
            exit = 1;
        }
        for sig in rep.known_hits.keys() {
            confirmed_known.insert(sig.clone());
        }
        reports.push(rep);
    }

    for k in known.iter().filter(|k| k.property == p.id && k.status == "open") {
        let hits: u64 = reports
            .iter()
            .map(|r| r.known_hits.get(&k.signature).map(|x| x.0).unwrap_or(0))
            .sum();
        println!(
            "KNOWN-FINDING: property={} {} [signature {}; confirmed on recorded input: {}; campaign hits: {}]",
            p.id,
            k.what,
            k.signature,
            confirmed_known.contains(&k.signature),
            hits
        );
    }

    // evidence
    let evaluations: u64 = reports.iter().map(|r| r.evaluations).sum::<u64>() + regress_run;
    let mut keys = BTreeSet::new();
    for r in &reports {
        for k in &r.nontrivial_keys {
            keys.insert((r.name.clone(), *k));
        }
    }
    let mut samples: Vec<Value> = vec![];
    for r in &reports {
        for s in r.samples.iter().take(4) {
            samples.push(json!({"part": r.name, "case": s}));
        }
    }
    // a run that stopped at a violation before any passing non-trivial case still shows what it ran
    for r in &reports {
        if let Some((f, case)) = &r.violation {
            samples.push(json!({"part": r.name, "violating_case": case, "signature": f.signature}));
        }
    }
    let rule = reports
        .iter()
        .map(|r| format!("[{}] {}", r.name, r.rule))
        .collect::<Vec<_>>()
        .join(" ");
    let parts_json: Vec<Value> = reports
        .iter()
        .map(|r| {
            json!({
                "part": r.name,
                "evaluations": r.evaluations,
                "distinct_nontrivial": r.nontrivial_keys.len(),
                "labels": r.labels,
                "skipped": r.skips,
                "excluded_known": r.known_hits.iter().map(|(k, v)| (k.clone(), json!(v.0))).collect::<serde_json::Map<_, _>>(),
                "extra": r.extra,
            })
        })
        .collect();
    let evidence = json!({
        "property_id": p.id,
        "tier": tier.name(),
        "seed": seed,
        "level": "exploration",
        "coverage": {
            "evaluations": evaluations,
            "distinct_nontrivial": keys.len(),
            "rule": rule,
            "samples": samples,
            "regression_replays": regress_run,
            "parts": parts_json,
            "exhaustive": false,
        },
        "assumptions": p.assumptions,
        "wall_s": start.elapsed().as_secs_f64(),
        "violations": violations,
    });
    // VERIF_EVIDENCE_DIR redirects the record (used when the checks are tried against a seeded
    // change, so that the records kept under /verif/evidence always stem from the unchanged tree)
    let evdir = std::env::var("VERIF_EVIDENCE_DIR").map(std::path::PathBuf::from).unwrap_or_else(|_| root.join("evidence"));
    let _ = std::fs::create_dir_all(&evdir);
    std::fs::write(
        evdir.join(format!("{}.json", p.id)),
        serde_json::to_string_pretty(&evidence).unwrap(),
    )
    .expect("write evidence");
    println!(
        "{} {}: {} cases, {} distinct non-trivial, {} violation(s), {:.1}s",
        p.id,
        tier.name(),
        evaluations,
        keys.len(),
        violations,
        start.elapsed().as_secs_f64()
    );
    for r in &reports {
        let skipped: u64 = r.skips.values().sum();
        println!(
            "  part {}: {} cases, {} non-trivial, {} skipped {:?}",
            r.name,
            r.evaluations,
            r.nontrivial_keys.len(),
            skipped,
            r.skips
        );
    }
    if exit == 0 && keys.len() < 2 {
        eprintln!("INTERNAL: fewer than two non-trivial cases — generator problem");
        exit = 2;
    }
    exit
}

pub fn replay_file(p: &PropertyRun, path: &std::path::Path, root: &std::path::Path) -> i32 {
    let known = load_known(root);
    let bytes = std::fs::read(path).expect("replay file readable");
    let text = String::from_utf8_lossy(&bytes).to_string();
    let candidates: Vec<Value> = match serde_json::from_str::<Value>(&text) {
        Ok(j) if j.get("case").and_then(|c| c.get("raw_text")).is_some() => raw_candidates(j["case"]["raw_text"].as_str().unwrap_or("")),
        Ok(j) => vec![j],
        // a libFuzzer artifact: raw input text
        Err(_) => raw_candidates(&text),
    };
    let mut inconclusive = false;
    for j in &candidates {
      for part in &p.parts {
        if let Some(o) = part.replay(j) {
            if candidates.len() > 1 && !matches!(o.verdict, Verdict::Fail(_)) {
                inconclusive |= matches!(o.verdict, Verdict::Skip(_));
                continue;
            }
            return match o.verdict {
                Verdict::Fail(f) => {
                    println!("{}", f.message);
                    println!("signature: {}", f.signature);
                    if known
                        .iter()
                        .any(|k| k.property == p.id && k.status == "open" && k.signature == f.signature)
                    {
                        println!("KNOWN-FINDING: property={} signature {}", p.id, f.signature);
                        0
                    } else {
                        println!("VIOLATION property={} replay={}", p.id, path.display());
                        1
                    }
                }
                Verdict::Pass => {
                    if let Some(r) = &o.readable {
                        println!("{r}");
                    }
                    println!("replay passes");
                    0
                }
                Verdict::Skip(w) => {
                    println!("replay inconclusive: {w}");
                    2
                }
            };
        }
      }
    }
    if candidates.len() > 1 {
        println!("replay passes{}", if inconclusive { " (some readings inconclusive)" } else { "" });
        return 0;
    }
    eprintln!("no part of {} understands {}", p.id, path.display());
    2
}

/// readings of a raw text for the text-driven properties (C14, C15, C16)
fn raw_candidates(text: &str) -> Vec<Value> {
    let mut v = vec![];
    for (part, kind) in [("asp-roundtrip", "program"), ("asp-roundtrip", "term"), ("asp-roundtrip", "rule")] {
        v.push(json!({"part": part, "case": {"kind": kind, "text": text}}));
    }
    for kind in ["theory", "specification", "user-guide", "formula"] {
        v.push(json!({"part": "fol-roundtrip", "case": {"kind": kind, "text": text}}));
    }
    for ext in ["lp", "spec", "ug"] {
        v.push(json!({"part": "robustness", "case": {"ext": ext, "text": text, "via_cli": false}}));
    }
    v
}

// ---------------------------------------------------------------------------------------
// coverage-guided fuzzing (thorough tier): libFuzzer targets with the oracle inside the target

pub struct FuzzPart {
    pub target: &'static str,
    pub runs_thorough: u64,
}

impl Part for FuzzPart {
    fn name(&self) -> &'static str {
        self.target
    }
    fn campaign(&self, ctx: &Ctx) -> PartReport {
        let mut rep = PartReport {
            name: format!("libfuzzer:{}", self.target),
            rule: format!(
                "cargo-fuzz target {} (oracle inside the target), corpus seeded with the repository's example files, 8 parallel jobs with -runs={} each, -seed=<VERIF_SEED> -max_len=4096; thorough tier only",
                self.target, self.runs_thorough
            ),
            ..Default::default()
        };
        if ctx.tier != Tier::Thorough {
            return rep;
        }
        let fuzz_dir = ctx.root.join("fuzz");
        let corpus = ctx.root.join("target").join("scratch").join(format!("corpus-{}-{}", self.target, std::process::id()));
        let artifacts = ctx.root.join("target").join("fuzz-artifacts").join(self.target);
        let _ = std::fs::remove_dir_all(&corpus);
        let _ = std::fs::create_dir_all(&corpus);
        let _ = std::fs::create_dir_all(&artifacts);
        for (i, (ext, text)) in crate::generators::text::example_files().into_iter().enumerate() {
            let _ = std::fs::write(corpus.join(format!("seed-{i}.{ext}")), text);
        }
        // eight libFuzzer jobs in parallel, each with the full run count and its own log file
        let logdir = ctx.root.join("target").join("scratch").join(format!("fuzzlogs-{}-{}", self.target, std::process::id()));
        let _ = std::fs::remove_dir_all(&logdir);
        let _ = std::fs::create_dir_all(&logdir);
        let out = std::process::Command::new("cargo")
            .current_dir(&fuzz_dir)
            .env("CARGO_NET_OFFLINE", "true")
            .args(["+nightly", "fuzz", "run", "--fuzz-dir", "."])
            .arg(self.target)
            .arg(&corpus)
            .arg("--")
            .arg(format!("-runs={}", self.runs_thorough))
            .arg(format!("-seed={}", (ctx.seed % 4_000_000_000).max(1)))
            .arg("-max_len=4096")
            .arg("-len_control=0")
            .arg("-timeout=120")
            .arg("-rss_limit_mb=6000")
            .arg("-jobs=8")
            .arg("-workers=8")
            .arg(format!("-artifact_prefix={}/", artifacts.display()))
            .output();
        let _ = std::fs::remove_dir_all(&corpus);
        match out {
            Err(e) => rep.internal_errors.push(format!("cannot start cargo fuzz: {e}")),
            Ok(o) => {
                // with -jobs the per-job output goes to fuzz-<n>.log in the working directory
                let mut log = String::from_utf8_lossy(&o.stderr).to_string();
                let mut done_total = 0u64;
                for n in 0..8 {
                    let f = fuzz_dir.join(format!("fuzz-{n}.log"));
                    if let Ok(t) = std::fs::read_to_string(&f) {
                        if let Some(d) = t
                            .lines()
                            .rev()
                            .find_map(|l| l.strip_prefix("Done ").and_then(|r| r.split_whitespace().next()).and_then(|x| x.parse::<u64>().ok()))
                        {
                            done_total += d;
                        }
                        log.push_str(&t);
                        let _ = std::fs::rename(&f, logdir.join(format!("fuzz-{n}.log")));
                    }
                }
                if done_total > 0 {
                    rep.evaluations = done_total;
                    rep.extra.insert("libfuzzer_done_runs".into(), json!(done_total));
                }
                if !o.status.success() {
                    // a crash: the artifact path is printed by libFuzzer
                    let artifact = log
                        .lines()
                        .find_map(|l| l.split("Test unit written to ").nth(1))
                        .map(|s| s.trim().to_string());
                    let message: String = log
                        .lines()
                        .filter(|l| l.contains("panicked") || l.contains("C14") || l.contains("C15") || l.contains("ERROR"))
                        .take(6)
                        .collect::<Vec<_>>()
                        .join("\n");
                    match artifact {
                        Some(a) => {
                            let text = std::fs::read(&a).map(|b| String::from_utf8_lossy(&b).to_string()).unwrap_or_default();
                            rep.violation = Some((
                                Failure {
                                    signature: format!("libfuzzer:{}", self.target),
                                    message: format!("libFuzzer target {} crashed: {message}\n  artifact: {a}", self.target),
                                },
                                json!({"raw_text": text, "artifact": a}),
                            ));
                        }
                        None => rep.internal_errors.push(format!(
                            "cargo fuzz run {} failed without an artifact: {}",
                            self.target,
                            log.lines().rev().take(8).collect::<Vec<_>>().join(" | ")
                        )),
                    }
                }
            }
        }
        rep
    }
    fn replay(&self, _j: &Value) -> Option<Outcome> {
        None
    }
}
