//! Stand-in `vampire`: the engine binary behaves as the prover when invoked under that name.
//! It reads stdin completely, stores it, looks the SHA-256 of the text up in the plan and answers.
use sha2::{Digest, Sha256};
use std::io::{Read, Write};

pub fn sha(text: &[u8]) -> String {
    let d = Sha256::digest(text);
    d.iter().map(|b| format!("{b:02x}")).collect()
}

pub const OUTCOMES: [&str; 19] = [
    "Theorem",
    "CounterSatisfiable",
    "ContradictoryAxioms",
    "Timeout",
    "MemoryOut",
    "GaveUp",
    "Error",
    "UnknownWord",
    "NoStatus",
    "NonUtf8",
    "TheoremNonZeroExit",
    "NoStatusNonZeroExit",
    "KilledBySignal",
    "ExitWithoutReading",
    "TheoremAfterLongOutput",
    "TimeoutAfterLongOutput",
    "GaveUpThenTheorem",
    "TheoremThenKilledBySignal",
    "NoStatusStderrTheorem",
];

/// does a prover run with this outcome print `SZS status Theorem` (in valid UTF-8 output)?
pub fn prints_theorem(outcome: &str) -> bool {
    matches!(outcome, "Theorem" | "TheoremNonZeroExit" | "TheoremAfterLongOutput" | "TheoremThenKilledBySignal")
}

pub fn main() -> ! {
    let dir = std::env::var("STUB_DIR").unwrap_or_else(|_| ".".into());
    let plan: serde_json::Value = std::fs::read_to_string(format!("{dir}/plan.json"))
        .ok()
        .and_then(|t| serde_json::from_str(&t).ok())
        .unwrap_or(serde_json::json!({}));
    if plan.get("exit_without_reading_all").and_then(|x| x.as_bool()) == Some(true) {
        std::process::exit(3);
    }
    let mut input = vec![];
    let _ = std::io::stdin().read_to_end(&mut input);
    let h = sha(&input);
    let id = format!("{}-{}", std::process::id(), std::time::SystemTime::now().duration_since(std::time::UNIX_EPOCH).map(|d| d.as_nanos()).unwrap_or(0));
    let _ = std::fs::write(format!("{dir}/recv-{id}.p"), &input);
    let entry = plan.get("problems").and_then(|p| p.get(&h));
    // (a problem the plan does not list gets the outcome named by STUB_DEFAULT_OUTCOME, if any)
    let fallback = std::env::var("STUB_DEFAULT_OUTCOME").unwrap_or_else(|_| "NoPlan".into());
    let outcome = entry.and_then(|e| e.get("outcome")).and_then(|x| x.as_str()).unwrap_or(&fallback).to_string();
    let delay = entry.and_then(|e| e.get("delay_ms")).and_then(|x| x.as_u64()).unwrap_or(0);
    std::thread::sleep(std::time::Duration::from_millis(delay));
    let out = std::io::stdout();
    let mut out = out.lock();
    let status = |w: &str| format!("% Refutation found.\n% SZS status {w} for stdin\n% SZS output start\n");
    let code = match outcome.as_str() {
        "Theorem" => {
            let _ = out.write_all(status("Theorem").as_bytes());
            0
        }
        "TheoremAfterLongOutput" | "TimeoutAfterLongOutput" => {
            // what a portfolio prover prints before it succeeds: many failed strategies (about 8 KB)
            for k in 0..24 {
                let _ = out.write_all(format!("% lrs+1011_{k}:1_bd=off:nwc=1.5:sac=on_300 on stdin\n% (1234)Time limit reached!\n% ------------------------------\n% Version: Vampire 4.8\n% Termination reason: Time limit\n% Termination phase: Saturation\n% Memory used [KB]: 12345\n% Time elapsed: 0.300 s\n% ------------------------------\n% ------------------------------\n").as_bytes());
            }
            let _ = out.write_all(status(if outcome == "TheoremAfterLongOutput" { "Theorem" } else { "Timeout" }).as_bytes());
            0
        }
        "GaveUpThenTheorem" => {
            // two status lines in one run (a portfolio child that gives up before another one succeeds):
            // a status other than Theorem was printed, so the run does not count as proven
            let _ = out.write_all(status("GaveUp").as_bytes());
            let _ = out.write_all(status("Theorem").as_bytes());
            0
        }
        "CounterSatisfiable" | "ContradictoryAxioms" | "Timeout" | "MemoryOut" | "GaveUp" | "Error" => {
            let _ = out.write_all(status(&outcome).as_bytes());
            0
        }
        "UnknownWord" => {
            let _ = out.write_all(status("Frobnicated").as_bytes());
            0
        }
        "NoStatus" => {
            let _ = out.write_all(b"% nothing to see here\nTheorem\n");
            0
        }
        "NoStatusStderrTheorem" => {
            // nothing about a status on stdout; a status-like line on stderr (a wrapper's log) does not count
            let _ = out.write_all(b"% nothing to see here\n");
            eprintln!("% wrapper: previous result was SZS status Theorem for some_other_problem");
            0
        }
        "NonUtf8" => {
            let _ = out.write_all(b"\xff\xfe garbage\n");
            let _ = out.write_all(status("Theorem").as_bytes());
            0
        }
        "TheoremNonZeroExit" => {
            let _ = out.write_all(status("Theorem").as_bytes());
            7
        }
        "NoStatusNonZeroExit" => {
            let _ = out.write_all(b"segmentation fault\n");
            139
        }
        "TheoremThenKilledBySignal" => {
            // the prover finds its proof and then dies (a crash on exit, the OOM killer)
            let _ = out.write_all(status("Theorem").as_bytes());
            let _ = out.flush();
            unsafe {
                libc::kill(libc::getpid(), libc::SIGSEGV);
            }
            1
        }
        "KilledBySignal" => {
            let _ = out.flush();
            unsafe {
                libc::kill(libc::getpid(), libc::SIGKILL);
            }
            1
        }
        _ => {
            let _ = out.write_all(b"% no plan for this problem\n");
            1
        }
    };
    let _ = out.flush();
    std::process::exit(code)
}
