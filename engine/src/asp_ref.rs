//! Reference semantics of mini-gringo, written from the definition (values of terms, ground
//! instances as propositional here-and-there formulas, stable models). Shares no code with anthem.
//! Division and modulo are floor division, defined for positive divisors only (the semantics the
//! translator documents). All answers are three-valued: None = could not be decided.
use crate::dom::{Interp, Val};
use anthem::syntax_tree::asp::mini_gringo as asp;
use std::cell::Cell;
use std::collections::{BTreeMap, BTreeSet};

pub type Subst = BTreeMap<String, Val>;

#[derive(Debug, Clone, PartialEq)]
pub enum RefErr {
    Unbound,
    Overflow,
    TooLarge,
}

const INTERVAL_CAP: i128 = 400;

pub fn vals(t: &asp::Term, th: &Subst) -> Result<BTreeSet<Val>, RefErr> {
    Ok(match t {
        asp::Term::PrecomputedTerm(p) => BTreeSet::from([match p {
            asp::PrecomputedTerm::Infimum => Val::Inf,
            asp::PrecomputedTerm::Supremum => Val::Sup,
            asp::PrecomputedTerm::Numeral(n) => Val::Int(*n as i128),
            asp::PrecomputedTerm::Symbol(s) => Val::Sym(s.clone()),
        }]),
        asp::Term::Variable(v) => BTreeSet::from([th.get(&v.0).ok_or(RefErr::Unbound)?.clone()]),
        asp::Term::UnaryOperation { arg, .. } => {
            let mut out = BTreeSet::new();
            for v in vals(arg, th)? {
                if let Val::Int(n) = v {
                    out.insert(Val::Int(n.checked_neg().ok_or(RefErr::Overflow)?));
                }
            }
            out
        }
        asp::Term::BinaryOperation { op, lhs, rhs } => {
            let l = vals(lhs, th)?;
            let r = vals(rhs, th)?;
            let mut out = BTreeSet::new();
            for a in l.iter().filter_map(|v| v.int()) {
                for b in r.iter().filter_map(|v| v.int()) {
                    match op {
                        asp::BinaryOperator::Add => {
                            out.insert(Val::Int(a.checked_add(b).ok_or(RefErr::Overflow)?));
                        }
                        asp::BinaryOperator::Subtract => {
                            out.insert(Val::Int(a.checked_sub(b).ok_or(RefErr::Overflow)?));
                        }
                        asp::BinaryOperator::Multiply => {
                            out.insert(Val::Int(a.checked_mul(b).ok_or(RefErr::Overflow)?));
                        }
                        asp::BinaryOperator::Divide => {
                            if b > 0 {
                                out.insert(Val::Int(a.div_euclid(b)));
                            }
                        }
                        asp::BinaryOperator::Modulo => {
                            if b > 0 {
                                out.insert(Val::Int(a.rem_euclid(b)));
                            }
                        }
                        asp::BinaryOperator::Interval => {
                            if b >= a {
                                if b - a > INTERVAL_CAP {
                                    return Err(RefErr::TooLarge);
                                }
                                out.extend((a..=b).map(Val::Int));
                            }
                        }
                    }
                }
            }
            out
        }
    })
}

fn tuples(terms: &[asp::Term], th: &Subst) -> Result<Vec<Vec<Val>>, RefErr> {
    let mut acc: Vec<Vec<Val>> = vec![vec![]];
    for t in terms {
        let vs = vals(t, th)?;
        let mut next = Vec::with_capacity(acc.len() * vs.len());
        for a in &acc {
            for v in &vs {
                let mut x = a.clone();
                x.push(v.clone());
                next.push(x);
            }
        }
        if next.len() > 5000 {
            return Err(RefErr::TooLarge);
        }
        acc = next;
    }
    Ok(acc)
}

fn rel_holds(r: asp::Relation, a: &Val, b: &Val) -> bool {
    match r {
        asp::Relation::Equal => a == b,
        asp::Relation::NotEqual => a != b,
        asp::Relation::Less => a < b,
        asp::Relation::LessEqual => a <= b,
        asp::Relation::Greater => a > b,
        asp::Relation::GreaterEqual => a >= b,
    }
}

/// truth of one body element of the ground instance at world `w` (interpretations `w` ⊆ `t`)
pub fn element_holds(f: &asp::AtomicFormula, th: &Subst, w: &Interp, t: &Interp) -> Result<bool, RefErr> {
    Ok(match f {
        asp::AtomicFormula::Literal(l) => {
            let ts = tuples(&l.atom.terms, th)?;
            let name = &l.atom.predicate_symbol;
            match l.sign {
                asp::Sign::NoSign => ts.iter().any(|x| w.holds(name, x)),
                asp::Sign::Negation => ts.iter().any(|x| !t.holds(name, x)),
                asp::Sign::DoubleNegation => ts.iter().any(|x| t.holds(name, x)),
            }
        }
        asp::AtomicFormula::Comparison(c) => {
            let l = vals(&c.lhs, th)?;
            let r = vals(&c.rhs, th)?;
            l.iter().any(|a| r.iter().any(|b| rel_holds(c.relation, a, b)))
        }
    })
}

pub fn body_holds(b: &asp::Body, th: &Subst, w: &Interp, t: &Interp) -> Result<bool, RefErr> {
    for f in &b.formulas {
        if !element_holds(f, th, w, t)? {
            return Ok(false);
        }
    }
    Ok(true)
}

pub fn head_holds(h: &asp::Head, th: &Subst, w: &Interp, t: &Interp) -> Result<bool, RefErr> {
    Ok(match h {
        asp::Head::Falsity => false,
        asp::Head::Basic(a) => tuples(&a.terms, th)?.iter().all(|x| w.holds(&a.predicate_symbol, x)),
        asp::Head::Choice(a) => tuples(&a.terms, th)?
            .iter()
            .all(|x| w.holds(&a.predicate_symbol, x) || !t.holds(&a.predicate_symbol, x)),
    })
}

/// (H,T) |= the ground instance of the rule under θ
pub fn instance_sat(r: &asp::Rule, th: &Subst, h: &Interp, t: &Interp) -> Result<bool, RefErr> {
    let at_t = !body_holds(&r.body, th, t, t)? || head_holds(&r.head, th, t, t)?;
    if !at_t {
        return Ok(false);
    }
    Ok(!body_holds(&r.body, th, h, t)? || head_holds(&r.head, th, h, t)?)
}

// ---------------------------------------------------------------------------------------
// enumeration of the substitutions that can satisfy a body

fn is_ground(t: &asp::Term, th: &Subst) -> bool {
    t.variables().iter().all(|v| th.contains_key(&v.0))
}

/// all extensions θ' of θ (binding variables of `t` only) with value ∈ vals(t, θ'); None = not invertible
fn match_term(t: &asp::Term, value: &Val, th: &Subst) -> Option<Vec<Subst>> {
    if is_ground(t, th) {
        return match vals(t, th) {
            Ok(vs) => Some(if vs.contains(value) { vec![th.clone()] } else { vec![] }),
            Err(_) => None,
        };
    }
    match t {
        asp::Term::Variable(v) => {
            let mut n = th.clone();
            n.insert(v.0.clone(), value.clone());
            Some(vec![n])
        }
        asp::Term::PrecomputedTerm(_) => unreachable!("precomputed terms are ground"),
        asp::Term::UnaryOperation { arg, .. } => match value {
            Val::Int(k) => match_term(arg, &Val::Int(k.checked_neg()?), th),
            _ => Some(vec![]),
        },
        asp::Term::BinaryOperation { op, lhs, rhs } => {
            let Val::Int(k) = value else {
                return Some(vec![]);
            };
            let (lg, rg) = (is_ground(lhs, th), is_ground(rhs, th));
            if lg == rg {
                return None; // both sides open
            }
            let (ground, open, open_is_left) = if lg { (lhs, rhs, false) } else { (rhs, lhs, true) };
            let gv = vals(ground, th).ok()?;
            let mut out = vec![];
            for s in gv.iter().filter_map(|v| v.int()) {
                let x: Option<i128> = match op {
                    asp::BinaryOperator::Add => Some(k.checked_sub(s)?),
                    asp::BinaryOperator::Subtract => {
                        if open_is_left {
                            Some(k.checked_add(s)?)
                        } else {
                            Some(s.checked_sub(*k)?)
                        }
                    }
                    asp::BinaryOperator::Multiply => {
                        if s == 0 {
                            if *k == 0 {
                                return None; // every integer is a solution
                            }
                            None
                        } else if k % s == 0 {
                            Some(k / s)
                        } else {
                            None
                        }
                    }
                    _ => return None,
                };
                if let Some(x) = x {
                    out.extend(match_term(open, &Val::Int(x), th)?);
                }
            }
            Some(out)
        }
    }
}

fn match_tuple(terms: &[asp::Term], tuple: &[Val], th: &Subst) -> Option<Vec<Subst>> {
    let mut acc = vec![th.clone()];
    for (t, v) in terms.iter().zip(tuple) {
        let mut next = vec![];
        for s in &acc {
            next.extend(match_term(t, v, s)?);
        }
        acc = next;
        if acc.is_empty() {
            break;
        }
    }
    Some(acc)
}

pub struct Search<'a> {
    /// extents positive literals are matched against
    pub pos: &'a Interp,
    /// extents `not not` literals are matched against (and negations evaluated in)
    pub there: &'a Interp,
    pub probe: &'a [Val],
    pub budget: Cell<i64>,
    pub inexact: Cell<bool>,
}

impl Search<'_> {
    /// calls `visit` for every substitution of `vars` found; `visit` returns true to stop.
    /// Every substitution under which the body holds (positive literals in `pos`) is visited,
    /// unless `inexact` is set afterwards (unbound variables were probed, or budget exhausted).
    pub fn enumerate(
        &self,
        body: &[asp::AtomicFormula],
        vars: &[String],
        th: &Subst,
        used: &mut Vec<bool>,
        visit: &mut dyn FnMut(&Subst) -> bool,
    ) -> bool {
        let b = self.budget.get() - 1;
        self.budget.set(b);
        if b <= 0 {
            self.inexact.set(true);
            return false;
        }
        // find a binder
        for (i, f) in body.iter().enumerate() {
            if used[i] {
                continue;
            }
            match f {
                asp::AtomicFormula::Literal(l) if l.sign != asp::Sign::Negation => {
                    if l.atom.terms.iter().all(|t| is_ground(t, th)) {
                        continue; // nothing to bind; checked at the end
                    }
                    let ext = if l.sign == asp::Sign::NoSign { self.pos } else { self.there };
                    let mut all: Vec<Subst> = vec![];
                    let mut invertible = true;
                    for tuple in ext.ext(&l.atom.predicate_symbol, l.atom.terms.len()) {
                        match match_tuple(&l.atom.terms, tuple, th) {
                            Some(s) => all.extend(s),
                            None => {
                                invertible = false;
                                break;
                            }
                        }
                    }
                    if !invertible {
                        continue;
                    }
                    used[i] = true;
                    all.sort();
                    all.dedup();
                    for s in all {
                        if self.enumerate(body, vars, &s, used, visit) {
                            used[i] = false;
                            return true;
                        }
                    }
                    used[i] = false;
                    return false;
                }
                asp::AtomicFormula::Comparison(c) if c.relation == asp::Relation::Equal => {
                    let (lg, rg) = (is_ground(&c.lhs, th), is_ground(&c.rhs, th));
                    if lg == rg {
                        continue;
                    }
                    let (ground, open) = if lg { (&c.lhs, &c.rhs) } else { (&c.rhs, &c.lhs) };
                    let Ok(gv) = vals(ground, th) else { continue };
                    let mut all: Vec<Subst> = vec![];
                    let mut invertible = true;
                    for v in &gv {
                        match match_term(open, v, th) {
                            Some(s) => all.extend(s),
                            None => {
                                invertible = false;
                                break;
                            }
                        }
                    }
                    if !invertible {
                        continue;
                    }
                    used[i] = true;
                    all.sort();
                    all.dedup();
                    for s in all {
                        if self.enumerate(body, vars, &s, used, visit) {
                            used[i] = false;
                            return true;
                        }
                    }
                    used[i] = false;
                    return false;
                }
                _ => {}
            }
        }
        // no binder
        if let Some(v) = vars.iter().find(|v| !th.contains_key(*v)) {
            self.inexact.set(true);
            for val in self.probe {
                let mut s = th.clone();
                s.insert(v.clone(), val.clone());
                if self.enumerate(body, vars, &s, used, visit) {
                    return true;
                }
            }
            return false;
        }
        visit(th)
    }
}

fn rule_vars(r: &asp::Rule) -> Vec<String> {
    let mut v: Vec<String> = r.variables().into_iter().map(|x| x.0).collect();
    v.sort();
    v
}

/// (H,T) satisfies every ground instance of the rule: Some(true/false), None = unknown
pub fn rule_sat(r: &asp::Rule, h: &Interp, t: &Interp, probe: &[Val]) -> Option<bool> {
    let search = Search {
        pos: t,
        there: t,
        probe,
        budget: Cell::new(200_000),
        inexact: Cell::new(false),
    };
    let vars = rule_vars(r);
    let mut violated = false;
    let mut error = false;
    let mut used = vec![false; r.body.formulas.len()];
    search.enumerate(&r.body.formulas, &vars, &Subst::new(), &mut used, &mut |th| {
        match instance_sat(r, th, h, t) {
            Ok(true) => false,
            Ok(false) => {
                violated = true;
                true
            }
            Err(_) => {
                error = true;
                false
            }
        }
    });
    if violated {
        Some(false)
    } else if error || search.inexact.get() {
        None
    } else {
        Some(true)
    }
}

/// does some instance of the rule have its body true in T (the rule "fires")?
pub fn rule_fires(r: &asp::Rule, t: &Interp, probe: &[Val]) -> bool {
    let search = Search {
        pos: t,
        there: t,
        probe,
        budget: Cell::new(50_000),
        inexact: Cell::new(false),
    };
    let vars = rule_vars(r);
    let mut fires = false;
    let mut used = vec![false; r.body.formulas.len()];
    search.enumerate(&r.body.formulas, &vars, &Subst::new(), &mut used, &mut |th| {
        if body_holds(&r.body, th, t, t) == Ok(true) {
            fires = true;
            true
        } else {
            false
        }
    });
    fires
}

pub fn program_sat(p: &asp::Program, h: &Interp, t: &Interp, probe: &[Val]) -> Option<bool> {
    let mut unknown = false;
    for r in &p.rules {
        match rule_sat(r, h, t, probe) {
            Some(false) => return Some(false),
            None => unknown = true,
            Some(true) => {}
        }
    }
    if unknown { None } else { Some(true) }
}

// ---------------------------------------------------------------------------------------
// stable models

fn add_head(r: &asp::Rule, th: &Subst, into: &mut Interp, only_if_in: Option<&Interp>) -> Result<bool, RefErr> {
    let (a, choice) = match &r.head {
        asp::Head::Basic(a) => (a, false),
        asp::Head::Choice(a) => (a, true),
        asp::Head::Falsity => return Ok(false),
    };
    let mut changed = false;
    for tup in tuples(&a.terms, th)? {
        if choice {
            if let Some(j) = only_if_in {
                if !j.holds(&a.predicate_symbol, &tup) {
                    continue;
                }
            }
        }
        if !into.holds(&a.predicate_symbol, &tup) {
            into.insert(&a.predicate_symbol, tup);
            changed = true;
        }
    }
    Ok(changed)
}

/// least model of the reduct of `p` (with `facts`) relative to `j`; None = not decidable here
pub fn reduct_least_model(p: &asp::Program, facts: &Interp, j: &Interp, max_atoms: usize) -> Option<Interp> {
    let mut h = facts.clone();
    h.fcs = j.fcs.clone();
    for _round in 0..200 {
        let mut changed = false;
        for r in &p.rules {
            if matches!(r.head, asp::Head::Falsity) {
                continue;
            }
            let search = Search {
                pos: &h.clone(),
                there: j,
                probe: &[],
                budget: Cell::new(100_000),
                inexact: Cell::new(false),
            };
            let vars = rule_vars(r);
            let mut used = vec![false; r.body.formulas.len()];
            let mut found: Vec<Subst> = vec![];
            let snapshot = h.clone();
            let mut error = false;
            search.enumerate(&r.body.formulas, &vars, &Subst::new(), &mut used, &mut |th| {
                match body_holds(&r.body, th, &snapshot, j) {
                    Ok(true) => found.push(th.clone()),
                    Ok(false) => {}
                    Err(_) => error = true,
                }
                false
            });
            if search.inexact.get() || error {
                return None;
            }
            for th in found {
                match add_head(r, &th, &mut h, Some(j)) {
                    Ok(c) => changed |= c,
                    Err(_) => return None,
                }
            }
            if h.atoms().len() > max_atoms {
                return None;
            }
        }
        if !changed {
            return Some(h);
        }
    }
    None
}

/// is J a stable model of p ∪ facts (facts ⊆ J required)? None = not decidable here
pub fn is_stable(p: &asp::Program, facts: &Interp, j: &Interp) -> Option<bool> {
    if !facts.subset_of(j) {
        return Some(false);
    }
    match program_sat(p, j, j, &[]) {
        Some(true) => {}
        Some(false) => return Some(false),
        None => return None,
    }
    let lm = reduct_least_model(p, facts, j, 400)?;
    Some(same_atoms(&lm, j))
}

pub fn same_atoms(a: &Interp, b: &Interp) -> bool {
    a.subset_of(b) && b.subset_of(a)
}

/// over-approximating closure: every stable model of p ∪ facts is a subset
pub fn closure(p: &asp::Program, facts: &Interp, max_atoms: usize) -> Option<Interp> {
    let mut h = facts.clone();
    for _round in 0..100 {
        let mut changed = false;
        for r in &p.rules {
            if matches!(r.head, asp::Head::Falsity) {
                continue;
            }
            // negative literals ignored: drop them from the body
            let body: Vec<asp::AtomicFormula> = r
                .body
                .formulas
                .iter()
                .filter(|f| !matches!(f, asp::AtomicFormula::Literal(l) if l.sign == asp::Sign::Negation))
                .map(|f| match f {
                    asp::AtomicFormula::Literal(l) if l.sign == asp::Sign::DoubleNegation => {
                        asp::AtomicFormula::Literal(asp::Literal {
                            sign: asp::Sign::NoSign,
                            atom: l.atom.clone(),
                        })
                    }
                    other => other.clone(),
                })
                .collect();
            let snapshot = h.clone();
            let search = Search {
                pos: &snapshot,
                there: &snapshot,
                probe: &[],
                budget: Cell::new(100_000),
                inexact: Cell::new(false),
            };
            let vars = rule_vars(r);
            let mut used = vec![false; body.len()];
            let mut found: Vec<Subst> = vec![];
            let mut error = false;
            let b = asp::Body { formulas: body.clone() };
            search.enumerate(&body, &vars, &Subst::new(), &mut used, &mut |th| {
                match body_holds(&b, th, &snapshot, &snapshot) {
                    Ok(true) => found.push(th.clone()),
                    Ok(false) => {}
                    Err(_) => error = true,
                }
                false
            });
            if search.inexact.get() || error {
                return None;
            }
            for th in found {
                match add_head(r, &th, &mut h, None) {
                    Ok(c) => changed |= c,
                    Err(_) => return None,
                }
            }
            if h.atoms().len() > max_atoms {
                return None;
            }
        }
        if !changed {
            return Some(h);
        }
    }
    None
}

/// all stable models of p ∪ facts, if the candidate universe is small enough
pub fn stable_models(p: &asp::Program, facts: &Interp, max_free: usize) -> Option<Vec<Interp>> {
    let cl = closure(p, facts, 60)?;
    let free: Vec<_> = cl
        .atoms()
        .into_iter()
        .filter(|(k, t)| !facts.holds(&k.0, t))
        .collect();
    if free.len() > max_free {
        return None;
    }
    let mut out = vec![];
    for mask in 0u32..(1u32 << free.len()) {
        let mut j = facts.clone();
        for (i, (k, t)) in free.iter().enumerate() {
            if mask & (1 << i) != 0 {
                j.insert(&k.0, t.clone());
            }
        }
        match is_stable(p, facts, &j) {
            Some(true) => out.push(j),
            Some(false) => {}
            None => return None,
        }
    }
    Some(out)
}

/// stability by the definition (no H strictly between facts and J with (H,J) |= p): cross-check
pub fn is_stable_by_definition(p: &asp::Program, facts: &Interp, j: &Interp) -> Option<bool> {
    if !facts.subset_of(j) {
        return Some(false);
    }
    if program_sat(p, j, j, &[])? == false {
        return Some(false);
    }
    let free: Vec<_> = j
        .atoms()
        .into_iter()
        .filter(|(k, t)| !facts.holds(&k.0, t))
        .collect();
    if free.len() > 12 {
        return None;
    }
    let full = (1u32 << free.len()) - 1;
    for mask in 0..full {
        let mut h = facts.clone();
        h.fcs = j.fcs.clone();
        for (i, (k, t)) in free.iter().enumerate() {
            if mask & (1 << i) != 0 {
                h.insert(&k.0, t.clone());
            }
        }
        match program_sat(p, &h, j, &[]) {
            Some(true) => return Some(false),
            Some(false) => {}
            None => return None,
        }
    }
    Some(true)
}

/// A guided pair (H subset-of T) for a program: T is the closure of the program over the atoms of
/// `seed_atoms` (every rule without negation is satisfied), in three cases of four with one atom taken out
/// again; H is T, in one case of three without one more atom. Whether a rule holds in such a pair hinges on
/// single atoms, which random extents almost never achieve. None when the closure is not computable.
pub fn guided_pair(p: &asp::Program, seed_atoms: &Interp, preds: &[(String, usize)], selector: usize) -> Option<(Interp, Interp)> {
    let mut t = closure(p, seed_atoms, 300)?;
    for q in preds {
        t.preds.entry(q.clone()).or_default();
    }
    let atoms = t.atoms();
    if !atoms.is_empty() && selector % 4 != 0 {
        let (k, tuple) = atoms[(selector / 4) % atoms.len()].clone();
        t.preds.get_mut(&k).unwrap().remove(&tuple);
    }
    let mut h = t.clone();
    let atoms = h.atoms();
    if !atoms.is_empty() && (selector / 2) % 3 == 0 {
        let (k, tuple) = atoms[(selector / 16) % atoms.len()].clone();
        h.preds.get_mut(&k).unwrap().remove(&tuple);
    }
    Some((h, t))
}

