//! Generators for mini-gringo terms, rules and programs.
use anthem::syntax_tree::asp::mini_gringo as asp;
use proptest::collection::vec;
use proptest::prelude::*;
use proptest::sample::select;

#[derive(Clone, Debug)]
pub struct AspCfg {
    pub preds: Vec<(String, usize)>,
    pub vars: Vec<String>,
    pub syms: Vec<String>,
    pub num_lo: isize,
    pub num_hi: isize,
    pub term_depth: u32,
    /// relative weights of the binary operators + - * / \ ..
    pub op_weights: [u32; 6],
    pub max_body: usize,
    pub max_rules: usize,
    /// weight of #inf/#sup/symbol leaves relative to numerals (10) and variables (10)
    pub exotic_leaf_weight: u32,
}

impl AspCfg {
    pub fn standard() -> AspCfg {
        AspCfg {
            preds: vec![("p".into(), 1), ("q".into(), 1), ("r".into(), 2), ("s".into(), 0), ("t".into(), 1)],
            vars: vec!["X".into(), "Y".into(), "Z".into()],
            syms: vec!["a".into(), "b".into()],
            num_lo: -3,
            num_hi: 4,
            term_depth: 3,
            op_weights: [4, 4, 3, 3, 3, 3],
            max_body: 3,
            max_rules: 4,
            exotic_leaf_weight: 2,
        }
    }
}

pub fn num(n: isize) -> asp::Term {
    asp::Term::PrecomputedTerm(asp::PrecomputedTerm::Numeral(n))
}
pub fn sym(s: &str) -> asp::Term {
    asp::Term::PrecomputedTerm(asp::PrecomputedTerm::Symbol(s.into()))
}
pub fn var(v: &str) -> asp::Term {
    asp::Term::Variable(asp::Variable(v.into()))
}
pub fn binop(op: asp::BinaryOperator, l: asp::Term, r: asp::Term) -> asp::Term {
    asp::Term::BinaryOperation {
        op,
        lhs: Box::new(l),
        rhs: Box::new(r),
    }
}
pub fn neg(t: asp::Term) -> asp::Term {
    asp::Term::UnaryOperation {
        op: asp::UnaryOperator::Negative,
        arg: Box::new(t),
    }
}

pub fn leaf(cfg: &AspCfg) -> BoxedStrategy<asp::Term> {
    let mut alts: Vec<(u32, BoxedStrategy<asp::Term>)> = vec![
        (10, (cfg.num_lo..=cfg.num_hi).prop_map(num).boxed()),
    ];
    if !cfg.vars.is_empty() {
        alts.push((10, select(cfg.vars.clone()).prop_map(|v| var(&v)).boxed()));
    }
    if cfg.exotic_leaf_weight > 0 {
        if !cfg.syms.is_empty() {
            alts.push((
                cfg.exotic_leaf_weight,
                select(cfg.syms.clone()).prop_map(|s| sym(&s)).boxed(),
            ));
        }
        alts.push((
            cfg.exotic_leaf_weight.div_ceil(2),
            prop_oneof![
                Just(asp::Term::PrecomputedTerm(asp::PrecomputedTerm::Infimum)),
                Just(asp::Term::PrecomputedTerm(asp::PrecomputedTerm::Supremum))
            ]
            .boxed(),
        ));
    }
    proptest::strategy::Union::new_weighted(alts).boxed()
}

pub fn operator(cfg: &AspCfg) -> BoxedStrategy<asp::BinaryOperator> {
    let ops = [
        asp::BinaryOperator::Add,
        asp::BinaryOperator::Subtract,
        asp::BinaryOperator::Multiply,
        asp::BinaryOperator::Divide,
        asp::BinaryOperator::Modulo,
        asp::BinaryOperator::Interval,
    ];
    let alts: Vec<(u32, BoxedStrategy<asp::BinaryOperator>)> = ops
        .iter()
        .zip(cfg.op_weights.iter())
        .filter(|(_, w)| **w > 0)
        .map(|(o, w)| (*w, Just(*o).boxed()))
        .collect();
    proptest::strategy::Union::new_weighted(alts).boxed()
}

pub fn term(cfg: &AspCfg) -> BoxedStrategy<asp::Term> {
    let cfg2 = cfg.clone();
    leaf(cfg)
        .prop_recursive(cfg.term_depth, 12, 2, move |inner| {
            prop_oneof![
                1 => inner.clone().prop_map(neg),
                5 => (operator(&cfg2), inner.clone(), inner).prop_map(|(op, l, r)| binop(op, l, r)),
            ]
        })
        .boxed()
}

/// a term that is a leaf with probability ~1/2 (arguments of atoms are mostly simple)
pub fn arg_term(cfg: &AspCfg) -> BoxedStrategy<asp::Term> {
    prop_oneof![3 => leaf(cfg), 2 => term(cfg)].boxed()
}

pub fn atom(cfg: &AspCfg) -> BoxedStrategy<asp::Atom> {
    let cfg2 = cfg.clone();
    select(cfg.preds.clone())
        .prop_flat_map(move |(name, arity)| {
            vec(arg_term(&cfg2), arity).prop_map(move |terms| asp::Atom {
                predicate_symbol: name.clone(),
                terms,
            })
        })
        .boxed()
}

pub fn relation() -> BoxedStrategy<asp::Relation> {
    select(vec![
        asp::Relation::Equal,
        asp::Relation::NotEqual,
        asp::Relation::Less,
        asp::Relation::LessEqual,
        asp::Relation::Greater,
        asp::Relation::GreaterEqual,
    ])
    .boxed()
}

pub fn sign() -> BoxedStrategy<asp::Sign> {
    prop_oneof![
        5 => Just(asp::Sign::NoSign),
        3 => Just(asp::Sign::Negation),
        2 => Just(asp::Sign::DoubleNegation),
    ]
    .boxed()
}

pub fn body_element(cfg: &AspCfg) -> BoxedStrategy<asp::AtomicFormula> {
    prop_oneof![
        3 => (sign(), atom(cfg)).prop_map(|(sign, atom)| asp::AtomicFormula::Literal(asp::Literal { sign, atom })),
        2 => (arg_term(cfg), relation(), arg_term(cfg)).prop_map(|(lhs, relation, rhs)| {
            asp::AtomicFormula::Comparison(asp::Comparison { relation, lhs, rhs })
        }),
    ]
    .boxed()
}

pub fn head(cfg: &AspCfg) -> BoxedStrategy<asp::Head> {
    prop_oneof![
        6 => atom(cfg).prop_map(asp::Head::Basic),
        3 => atom(cfg).prop_map(asp::Head::Choice),
        2 => Just(asp::Head::Falsity),
    ]
    .boxed()
}

pub fn rule(cfg: &AspCfg) -> BoxedStrategy<asp::Rule> {
    (head(cfg), vec(body_element(cfg), 0..=cfg.max_body))
        .prop_map(|(head, formulas)| asp::Rule {
            head,
            body: asp::Body { formulas },
        })
        .boxed()
}

pub fn program(cfg: &AspCfg) -> BoxedStrategy<asp::Program> {
    vec(rule(cfg), 0..=cfg.max_rules)
        .prop_map(|rules| asp::Program { rules })
        .boxed()
}

// ---------------------------------------------------------------------------------------
// safety shaping: bind variables so that the reference semantics and the exact evaluator
// give definite answers

fn directly_bound(r: &asp::Rule) -> std::collections::BTreeSet<String> {
    let mut out = std::collections::BTreeSet::new();
    for f in &r.body.formulas {
        match f {
            asp::AtomicFormula::Literal(l) if l.sign != asp::Sign::Negation => {
                for t in &l.atom.terms {
                    if let asp::Term::Variable(v) = t {
                        out.insert(v.0.clone());
                    }
                }
            }
            _ => {}
        }
    }
    out
}

/// append a binder for every variable that no positive body literal binds directly
pub fn make_safe(mut r: asp::Rule, domain: &[(String, usize)], choices: &[u8]) -> asp::Rule {
    let bound = directly_bound(&r);
    let mut vars: Vec<String> = r.variables().into_iter().map(|v| v.0).collect();
    vars.sort();
    for (i, v) in vars.iter().enumerate() {
        if bound.contains(v) {
            continue;
        }
        let c = choices.get(i % choices.len().max(1)).copied().unwrap_or(0);
        let binder = match c % 6 {
            0 => asp::AtomicFormula::Comparison(asp::Comparison {
                relation: asp::Relation::Equal,
                lhs: var(v),
                rhs: binop(asp::BinaryOperator::Interval, num((c % 3) as isize - 1), num((c % 4) as isize + 1)),
            }),
            1 => asp::AtomicFormula::Comparison(asp::Comparison {
                relation: asp::Relation::Equal,
                lhs: var(v),
                rhs: num((c % 5) as isize - 2),
            }),
            _ => {
                let (name, arity) = &domain[(c as usize / 6) % domain.len()];
                let pos = (c as usize / 3) % arity.max(&1);
                let terms = (0..*arity)
                    .map(|k| if k == pos { var(v) } else { var(&vars[(i + k) % vars.len()]) })
                    .collect();
                asp::AtomicFormula::Literal(asp::Literal {
                    sign: asp::Sign::NoSign,
                    atom: asp::Atom {
                        predicate_symbol: name.clone(),
                        terms,
                    },
                })
            }
        };
        r.body.formulas.push(binder);
    }
    r
}

/// rules that are safe with probability ~0.8
pub fn shaped_rule(cfg: &AspCfg) -> BoxedStrategy<asp::Rule> {
    let domain: Vec<(String, usize)> = cfg.preds.iter().filter(|p| p.1 > 0).cloned().collect();
    (rule(cfg), vec(any::<u8>(), 4), 0u8..10, 0u8..24)
        .prop_map(move |(r, choices, p, mirror)| {
            let r = if p < 8 && !domain.is_empty() { make_safe(r, &domain, &choices) } else { r };
            mirror_head(r, mirror)
        })
        .boxed()
}

/// 1 rule in 8: the body is (or starts with) the rule's own head atom under a sign
/// (`p :- not p.`, `p(X) :- not not p(X), q(X).`, `{p} :- p.`): shapes that rewrites about a
/// formula and its own negation / implication by itself are sensitive to
fn has_interval(t: &asp::Term) -> bool {
    match t {
        asp::Term::BinaryOperation { op, lhs, rhs } => *op == asp::BinaryOperator::Interval || has_interval(lhs) || has_interval(rhs),
        asp::Term::UnaryOperation { arg, .. } => has_interval(arg),
        _ => false,
    }
}

fn mirror_head(mut r: asp::Rule, k: u8) -> asp::Rule {
    if (3..6).contains(&k) {
        // 1 rule in 8: a body atom is repeated under another sign with the very same arguments
        // (`p(1..2), not p(1..2)` is satisfiable: each literal picks its own value of the interval)
        let pos = r.body.formulas.iter().position(|f| matches!(f, asp::AtomicFormula::Literal(_)));
        if let Some(i) = pos {
            if let asp::AtomicFormula::Literal(l) = r.body.formulas[i].clone() {
                let sign = match (l.sign.clone(), k) {
                    (asp::Sign::NoSign, 3) | (asp::Sign::DoubleNegation, _) => asp::Sign::Negation,
                    (asp::Sign::NoSign, _) => asp::Sign::DoubleNegation,
                    (asp::Sign::Negation, _) => asp::Sign::NoSign,
                };
                r.body.formulas.insert(i + 1, asp::AtomicFormula::Literal(asp::Literal { sign, atom: l.atom }));
            }
        }
        return r;
    }
    if (8..10).contains(&k) {
        // 1 rule in 12: the arguments of a body atom of arity >= 2 are the members of one family of
        // fresh-variable names in order (Z, Z1, Z2 / V, V1, V2): the names the translations bump past
        let family = if k == 8 { "Z" } else { "V" };
        for f in r.body.formulas.iter_mut() {
            if let asp::AtomicFormula::Literal(l) = f {
                if l.atom.terms.len() >= 2 {
                    for (i, t) in l.atom.terms.iter_mut().enumerate() {
                        let name = if i == 0 { family.to_string() } else { format!("{family}{i}") };
                        *t = asp::Term::Variable(asp::Variable(name));
                    }
                    l.sign = asp::Sign::NoSign;
                    break;
                }
            }
        }
        return r;
    }
    if (10..12).contains(&k) {
        // 1 rule in 12: a comparison whose two sides are the very same term - partial (`X+1 = X+1` has no
        // instance for a non-integer X) or many-valued (`1..2 != 1..2` holds: each side picks its own value)
        let compound = |t: &asp::Term| -> asp::Term {
            let simple = matches!(t, asp::Term::PrecomputedTerm(_) | asp::Term::Variable(_));
            match (k, simple, has_interval(t)) {
                (10, true, _) => binop(asp::BinaryOperator::Add, t.clone(), num(1)),
                (11, _, false) => match t {
                    asp::Term::PrecomputedTerm(asp::PrecomputedTerm::Numeral(_)) | asp::Term::Variable(_) | asp::Term::BinaryOperation { .. } | asp::Term::UnaryOperation { .. } => {
                        binop(asp::BinaryOperator::Interval, t.clone(), binop(asp::BinaryOperator::Add, t.clone(), num(1)))
                    }
                    _ => binop(asp::BinaryOperator::Interval, num(1), num(2)),
                },
                _ => t.clone(),
            }
        };
        let at = r.body.formulas.iter().position(|f| matches!(f, asp::AtomicFormula::Comparison(_)));
        match at {
            Some(i) => {
                if let asp::AtomicFormula::Comparison(c) = &mut r.body.formulas[i] {
                    let t = compound(&c.lhs);
                    c.lhs = t.clone();
                    c.rhs = t;
                }
            }
            None => {
                let base = r.variables().into_iter().next().map(|v| asp::Term::Variable(v)).unwrap_or_else(|| num(1));
                let t = compound(&base);
                r.body.formulas.push(asp::AtomicFormula::Comparison(asp::Comparison {
                    relation: if k == 10 { asp::Relation::Equal } else { asp::Relation::NotEqual },
                    lhs: t.clone(),
                    rhs: t,
                }));
            }
        }
        return r;
    }
    if (6..8).contains(&k) {
        // 1 rule in 12: a head with two syntactically identical arguments (`p(1..2, 1..2)`, `p(X+1, X+1)`)
        if let asp::Head::Basic(a) | asp::Head::Choice(a) = &mut r.head {
            if a.terms.len() >= 2 {
                let n = a.terms.len();
                let (from, to) = if k == 6 { (0, n - 1) } else { (n - 1, 0) };
                // every other time the repeated argument is made many-valued (`t..t+1`, or `1..2` for a
                // term that is not a number): the two occurrences then range independently
                if k == 7 && !has_interval(&a.terms[from]) {
                    let t = a.terms[from].clone();
                    a.terms[from] = match &t {
                        asp::Term::PrecomputedTerm(asp::PrecomputedTerm::Numeral(_)) | asp::Term::Variable(_) | asp::Term::BinaryOperation { .. } | asp::Term::UnaryOperation { .. } => {
                            binop(asp::BinaryOperator::Interval, t.clone(), binop(asp::BinaryOperator::Add, t, num(1)))
                        }
                        _ => binop(asp::BinaryOperator::Interval, num(1), num(2)),
                    };
                }
                a.terms[to] = a.terms[from].clone();
            }
        }
        return r;
    }
    if k >= 3 {
        return r;
    }
    let atom = match &r.head {
        asp::Head::Basic(a) | asp::Head::Choice(a) => a.clone(),
        asp::Head::Falsity => return r,
    };
    let sign = match k {
        0 => asp::Sign::Negation,
        1 => asp::Sign::DoubleNegation,
        _ => asp::Sign::NoSign,
    };
    let lit = asp::AtomicFormula::Literal(asp::Literal { sign, atom });
    // keep the rest of the body in half of the cases (decided by its length, to stay deterministic)
    if r.body.formulas.len() % 2 == 0 {
        r.body.formulas = vec![lit];
    } else {
        r.body.formulas.insert(0, lit);
    }
    r
}

pub fn shaped_program(cfg: &AspCfg, min_rules: usize) -> BoxedStrategy<asp::Program> {
    vec(shaped_rule(cfg), min_rules..=cfg.max_rules)
        .prop_map(|rules| asp::Program { rules })
        .boxed()
}
