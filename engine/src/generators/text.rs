//! Text-level generators for robustness testing: accepted texts mutated at token level.
use crate::generators::task::Chooser;
use proptest::prelude::*;

pub fn example_files() -> Vec<(String, String)> {
    // (extension, content) of the repository's example inputs
    fn walk(dir: &std::path::Path, out: &mut Vec<(String, String)>) {
        let Ok(rd) = std::fs::read_dir(dir) else { return };
        let mut entries: Vec<_> = rd.flatten().map(|e| e.path()).collect();
        entries.sort();
        for p in entries {
            if p.is_dir() {
                walk(&p, out);
            } else if let Some(ext) = p.extension().and_then(|e| e.to_str()) {
                if ["lp", "spec", "ug", "po"].contains(&ext) {
                    if let Ok(text) = std::fs::read_to_string(&p) {
                        if text.len() < 6000 {
                            out.push((ext.to_string(), text));
                        }
                    }
                }
            }
        }
    }
    let mut out = vec![];
    walk(std::path::Path::new("/repo/res/examples"), &mut out);
    out
}

pub fn tokenize(text: &str) -> Vec<String> {
    let b = text.as_bytes();
    let mut out = vec![];
    let mut i = 0;
    while i < b.len() {
        let c = b[i];
        let start = i;
        if c.is_ascii_alphabetic() || c == b'_' || c == b'#' || c == b'$' {
            i += 1;
            while i < b.len() && (b[i].is_ascii_alphanumeric() || b[i] == b'_' || b[i] == b'$') {
                i += 1;
            }
        } else if c.is_ascii_digit() {
            while i < b.len() && b[i].is_ascii_digit() {
                i += 1;
            }
        } else if c.is_ascii_whitespace() {
            while i < b.len() && b[i].is_ascii_whitespace() {
                i += 1;
            }
        } else if c < 0x80 {
            // multi-character operators stay together
            let two = text.get(i..i + 2).unwrap_or("");
            let three = text.get(i..i + 3).unwrap_or("");
            if three == "<->" {
                i += 3;
            } else if [":-", "->", "<-", "<=", ">=", "!=", ".."].contains(&two) {
                i += 2;
            } else {
                i += 1;
            }
        } else {
            // a multi-byte character
            i += 1;
            while i < b.len() && (b[i] & 0xC0) == 0x80 {
                i += 1;
            }
        }
        out.push(text[start..i].to_string());
    }
    out
}

const SOUP: [&str; 40] = [
    "(", ")", "((", "))", ",", ".", ":-", "->", "<-", "<->", "and", "or", "not", "forall", "exists", "+", "-", "*", "/",
    "\\", "..", "=", "!=", "<", "<=", ">", ">=", "{", "}", "#inf", "#sup", "#true", "#false", "$i", "$", "X", "p", "%", ":", "[",
];

const NUMERALS: [&str; 10] = [
    "0",
    "9223372036854775807",
    "9223372036854775808",
    "-9223372036854775808",
    "-9223372036854775809",
    "99999999999999999999999999",
    "18446744073709551616",
    "007",
    "-0",
    "340282366920938463463374607431768211456",
];

/// apply `n` token-level mutations
pub fn mutate(text: &str, c: &mut Chooser, n: usize) -> String {
    let mut toks = tokenize(text);
    for _ in 0..n {
        if toks.is_empty() {
            toks.push(c.pick(&SOUP).to_string());
            continue;
        }
        let i = c.next(toks.len());
        match c.next(10) {
            0 => {
                toks.remove(i);
            }
            1 => {
                // repeat a token 1-3 more times; words are kept apart by a blank so that the
                // repetition is a sequence of tokens for the grammar too (`not not not q`)
                let t = toks[i].clone();
                let wordy = t.chars().all(|ch| ch.is_ascii_alphanumeric() || ch == '_' || ch == '#' || ch == '$');
                let glue = wordy && c.flag(3, 4);
                for _ in 0..1 + c.next(3) {
                    toks.insert(i, if glue { format!("{t} ") } else { t.clone() });
                }
            }
            2 => {
                if i + 1 < toks.len() {
                    toks.swap(i, i + 1);
                }
            }
            3 => {
                // numeral inflation: replace a numeral (or any token) by an extreme numeral
                let pos = toks.iter().position(|t| t.chars().all(|ch| ch.is_ascii_digit())).unwrap_or(i);
                toks[pos] = c.pick(&NUMERALS).to_string();
            }
            4 => toks.insert(i, c.pick(&SOUP).to_string()),
            5 => toks[i] = c.pick(&SOUP).to_string(),
            6 => {
                // unbalanced parentheses
                toks.insert(i, if c.flag(1, 2) { "(".into() } else { ")".into() });
            }
            7 => {
                // operator soup
                let k = 2 + c.next(5);
                for _ in 0..k {
                    toks.insert(i, c.pick(&SOUP).to_string());
                }
            }
            8 => {
                // truncate
                toks.truncate(i);
            }
            _ => {
                // moderate nesting: wrap a token in parentheses / unary minus a few dozen times
                let depth = 1 + c.next(60);
                let open = if c.flag(1, 2) { "(" } else { "-" };
                let inner = toks[i].clone();
                let mut s = String::new();
                for _ in 0..depth {
                    s.push_str(open);
                }
                s.push_str(&inner);
                if open == "(" {
                    for _ in 0..depth {
                        s.push(')');
                    }
                }
                toks[i] = s;
            }
        }
    }
    toks.concat()
}

/// directed texts for the corners the property names
pub fn directed_texts() -> Vec<(&'static str, String)> {
    let mut v: Vec<(&'static str, String)> = vec![
        ("lp", String::new()),
        ("lp", "% only a comment".into()),
        ("lp", "% comment\n\n  \n".into()),
        ("ug", String::new()),
        ("spec", "% nothing\n".into()),
        ("lp", "p(9223372036854775807).".into()),
        ("lp", "p(-9223372036854775808).".into()),
        ("lp", "p(9223372036854775807 + 1).".into()),
        ("lp", "p(9223372036854775808).".into()),
        ("lp", "p(99999999999999999999999).".into()),
        ("lp", "p(-99999999999999999999999).".into()),
        ("ug", "input: p/99999999999999999999999.".into()),
        ("ug", "input: p/18446744073709551615.".into()),
        ("ug", "input: p/0. output: q/3000.".into()),
        ("spec", "spec: p(99999999999999999999999).".into()),
        ("spec", "definition: forall X (d(X) <-> in(X)).".into()),
        ("spec", "lemma: forall X (d(X) <-> in(X)).".into()),
        ("spec", "inductive-lemma: forall N$i (N$i >= 0 -> p(N$i)).".into()),
        ("po", "spec: p.".into()),
        ("po", "assumption: p.".into()),
        ("po", "inductive-lemma: p.".into()),
        ("po", "inductive-lemma: forall N$i (N$i >= 99999999999999999999 -> p(N$i)).".into()),
        ("po", "definition: p.".into()),
        // inductive lemmas whose lower bound is not a numeral: a symbolic constant, a general or
        // integer variable, #inf, an arithmetic term, a placeholder
        ("po", "inductive-lemma: forall N$i (N$i >= n -> (q(N$i) -> p(N$i))).".into()),
        ("po", "inductive-lemma: forall N$i X (N$i >= X -> p(N$i)).".into()),
        ("po", "inductive-lemma: forall N$i M$i (N$i >= M$i -> p(N$i)).".into()),
        ("po", "inductive-lemma: forall N$i (N$i >= #inf -> p(N$i)).".into()),
        ("po", "inductive-lemma: forall N$i (N$i >= 1 + 1 -> p(N$i)).".into()),
        ("po", "inductive-lemma: forall N (N >= 0 -> p(N)).".into()),
        ("po", "inductive-lemma: forall N$i (N$i > 0 -> p(N$i)).".into()),
        ("po", "inductive-lemma: forall N$i (0 <= N$i -> p(N$i)).".into()),
        ("lp", "p :- .".into()),
        ("lp", ":- .".into()),
        ("lp", ".".into()),
        ("lp", "p(1..9223372036854775807).".into()),
        ("lp", "p(X) :- X = 1 / 0.".into()),
        ("lp", "p(X) :- X = -9223372036854775808 / -1.".into()),
        ("lp", "p(V18446744073709551615) :- q(V18446744073709551615).".into()),
        ("lp", "p(V18446744073709551615, V18446744073709551614).".into()),
        ("lp", "p(V99999999999999999999999) :- q(V99999999999999999999999).".into()),
        ("lp", "p(I9, J9, K9, Z9223372036854775807, N18446744073709551615, 1..2).".into()),
    ];
    // one text per input language that uses every construct of its grammar, as a base for mutation
    v.push(("lp", "{p(X)} :- q(X), not r(X, a), not not s, X != 1, Y = 1..3, t(-X, X * 2 / 3 \\ 4 + Y - 1).\n:- p(a), not not q(#inf), #sup < X.\n#false :- not not s.\ns :- X = Y, X <= Y, X >= Y, X > Y, X < Y. % end\n".into()));
    v.push(("spec", "spec(forward)[name_1]: forall X Y$i Z$s (p(X) and not not q(Y$i) or #true -> exists N$ (N$ = a <-> 1 <= Y$i < 5 != -Y$ * 2) <- #false).\nassumption(universal): p(1 + 2 - 3, #inf, #sup, b) <-> not s.\nlemma(backward): exists X$g (X$g > 0).\n".into()));
    v.push(("ug", "input: p/1.\ninput: n -> integer.\ninput: c -> general. input: d -> symbol. input: e.\noutput: q/2.\nassumption: forall X (p(X) -> X >= n and not not X != c).\n".into()));
    v.push(("po", "definition(universal)[d1]: forall X (d(X) <-> p(X) and not q(X, X)).\nlemma(forward)[l1]: forall X (d(X) -> p(X)).\ninductive-lemma(backward): forall N$i (N$i >= 0 -> r(N$i)).\nlemma: exists X (not not d(X)).\n".into()));
    let args: String = (0..120).map(|i| format!("X{i}")).collect::<Vec<_>>().join(",");
    v.push(("lp", format!("p({args}) :- q({args}).")));
    v.push(("ug", "input: p/300.".into()));
    v
}

// ---------------------------------------------------------------------------------------
// identifiers at and beyond the edge of what the input grammars accept

/// A candidate identifier: underscores, a letter, a body, and in a third of the cases a character the
/// documented identifier shapes do not have (a prime, a second leading underscore, a dash, a
/// non-ASCII letter ...) at the front, inside or at the end. Whether the grammars accept it is for
/// anthem to say; what the checks ask is that whatever is accepted comes out well-formed.
pub fn candidate_identifier() -> BoxedStrategy<String> {
    let prefix = prop_oneof![12 => Just(""), 5 => Just("_"), 2 => Just("__"), 1 => Just("___")];
    let first = prop_oneof![
        12 => proptest::char::range('a', 'z').prop_map(|c| c.to_string()),
        12 => proptest::char::range('A', 'Z').prop_map(|c| c.to_string()),
        1 => proptest::char::range('0', '2').prop_map(|c| c.to_string()),
    ];
    let body = proptest::collection::vec(
        prop_oneof![
            5 => proptest::char::range('a', 'z'),
            2 => proptest::char::range('A', 'Z'),
            2 => proptest::char::range('0', '9'),
            2 => Just('_'),
        ],
        0..4,
    )
    .prop_map(|cs| cs.into_iter().collect::<String>());
    let odd = prop_oneof![
        30 => Just(""),
        3 => Just("'"),
        1 => Just("''"),
        1 => Just("-"),
        1 => Just("$"),
        1 => Just("@"),
        1 => Just("?"),
        1 => Just("!"),
        1 => Just("\u{e9}"),
        1 => Just("\u{3b1}"),
        1 => Just("`"),
        1 => Just("~"),
        1 => Just("^"),
        1 => Just("&"),
        1 => Just("\""),
        1 => Just("__"),
    ];
    (prefix, first, body, odd, 0u8..4)
        .prop_map(|(p, f, b, o, place)| match place {
            0 => format!("{p}{f}{o}{b}"),
            1 => format!("{p}{o}{f}{b}"),
            _ => format!("{p}{f}{b}{o}"),
        })
        .boxed()
}

/// the shapes the manual documents: `_?[a-z][A-Za-z0-9_]*` (symbols, predicates) and `_?[A-Z][A-Za-z0-9]*`
/// (program variables; the target language also allows `_` inside)
pub fn plain_identifier(s: &str) -> bool {
    let t = s.strip_prefix('_').unwrap_or(s);
    let mut cs = t.chars();
    matches!(cs.next(), Some(c) if c.is_ascii_alphabetic()) && cs.all(|c| c.is_ascii_alphanumeric() || c == '_')
}
