pub mod asp;
pub mod fol;
