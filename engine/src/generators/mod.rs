pub mod asp;
pub mod fol;
pub mod task;
pub mod text;
