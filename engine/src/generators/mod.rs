pub mod fol;
