//! Verification tasks built valid by construction from a vector of choices.
//!
//! Validity by construction: predicates are stratified (inputs at layer 0; private predicates in
//! layers above depend only on lower layers; output predicates come last and depend positively
//! only on lower predicates and earlier outputs, negatively on anything but themselves), so the
//! programs are tight and free of private recursion; inputs never head a rule; choice heads are
//! used for output predicates only; every rule variable is bound by a positive body literal.
use crate::generators::asp::{binop, num, sym, var};
use anthem::syntax_tree::asp::mini_gringo as asp;
use anthem::syntax_tree::fol::sigma_0 as fol;
use proptest::collection::vec;
use proptest::prelude::*;

/// sequential reader of generated choices (all randomness stays inside proptest)
#[derive(Clone, Debug)]
pub struct Chooser {
    pub data: Vec<u16>,
    pos: usize,
}

impl Chooser {
    pub fn new(data: Vec<u16>) -> Chooser {
        Chooser { data, pos: 0 }
    }
    pub fn next(&mut self, n: usize) -> usize {
        if n <= 1 {
            return 0;
        }
        let v = self.data.get(self.pos).copied().unwrap_or(0);
        self.pos += 1;
        (v as usize * n) >> 16
    }
    pub fn flag(&mut self, num: usize, den: usize) -> bool {
        self.next(den) < num
    }
    pub fn pick<'a, T>(&mut self, xs: &'a [T]) -> &'a T {
        &xs[self.next(xs.len())]
    }
    pub fn position(&self) -> usize {
        self.pos
    }
    /// a decision derived from the whole choice vector without consuming a choice (so that
    /// features added later do not change how recorded choice vectors decode); an all-zero
    /// vector (the simplest case) gives 0
    pub fn aux(&self, salt: u64, n: usize) -> usize {
        let mut h: u64 = 0;
        for (i, v) in self.data.iter().enumerate() {
            h = h.wrapping_add((*v as u64).wrapping_mul(0x9E37_79B9_7F4A_7C15 ^ (i as u64 + salt).wrapping_mul(0xBF58_476D_1CE4_E5B9)));
        }
        h ^= h >> 31;
        ((h % 65536) as usize * n) >> 16
    }
}

pub fn choices(len: usize) -> BoxedStrategy<Vec<u16>> {
    vec(any::<u16>(), len).boxed()
}

pub type Pred = (String, usize);

#[derive(Clone, Debug)]
pub struct Names {
    pub inputs: Vec<Pred>,
    pub outputs: Vec<Pred>,
    pub left_private: Vec<Pred>,
    pub right_private: Vec<Pred>,
    /// (name, sort) of placeholders; used in programs as symbolic constants
    pub placeholders: Vec<(String, fol::Sort)>,
    pub symbols: Vec<String>,
}

impl Names {
    /// some placeholder / some integer placeholder, chosen without consuming a choice
    pub fn some_placeholder(&self, c: &Chooser) -> Option<&(String, fol::Sort)> {
        if self.placeholders.is_empty() {
            return None;
        }
        Some(&self.placeholders[c.aux(100 + c.position() as u64, self.placeholders.len())])
    }
    pub fn some_int_placeholder(&self, c: &Chooser) -> Option<&(String, fol::Sort)> {
        let ints: Vec<&(String, fol::Sort)> = self.placeholders.iter().filter(|p| p.1 == fol::Sort::Integer).collect();
        if ints.is_empty() {
            return None;
        }
        Some(ints[c.aux(200 + c.position() as u64, ints.len())])
    }
    /// identifier shapes that interact with anthem's TPTP name mangling but are handled:
    /// names ending in _i/_g/_s/__s, h-/t-prefixed names, a symbol named like a 0-ary predicate
    pub fn tricky(c: &mut Chooser) -> Names {
        let mut n = Names::clean(c);
        let p = |s: &str, a: usize| (s.to_string(), a);
        if c.flag(1, 2) {
            n.inputs = vec![p("q_i", 1)];
        }
        n.outputs = match c.next(4) {
            0 => vec![p("p_g", 1), p("tp", 1)],
            1 => vec![p("o1", 1), p("ho1", 1)],
            2 => vec![p("x__s", 1)],
            _ => vec![p("o1", 1), p("o_s", 1)],
        };
        let (lp, rp) = match c.next(3) {
            0 => (vec![p("hp", 1)], vec![p("hp", 1)]),
            1 => (vec![p("a_i", 1), p("b", 1)], vec![p("a_i", 1), p("c_g", 1)]),
            _ => (vec![p("a", 1)], vec![p("a", 1)]),
        };
        // names whose completed-definition labels collide when labels are merely suffixed: c/1 and c_1/1
        if c.aux(106, 5) == 0 {
            n.outputs = vec![p("c", 1), p("c_1", 1)];
        }
        n.left_private = lp;
        n.right_private = rp;
        n.symbols = vec!["u".into(), "s_s".into(), "b__s".into(), "m_g".into(), "aB_1".into(), "vertex_11".into(), "vertex_10".into(), "vertex_1".into(), "vertex_2".into(), "vertex_09".into()];
        if c.flag(1, 2) {
            // a 0-ary output predicate whose name is also used as a symbol (anthem renames the symbol)
            n.outputs.push(p("z", 0));
            n.symbols = vec!["z".into(), "z0".into(), "zA".into(), "y".into(), "z_".into()];
            // ... next to a symbol that is written like the renamed one
            if c.aux(9, 2) == 1 {
                n.symbols = vec!["z".into(), "z0".into(), "z__s".into(), "y".into(), "z__s__s".into()];
            }
        }
        n
    }

    pub fn clean(c: &mut Chooser) -> Names {
        let p = |s: &str, a: usize| (s.to_string(), a);
        let mut placeholders = vec![];
        if c.flag(2, 3) {
            placeholders.push(("n".to_string(), fol::Sort::Integer));
        }
        if c.flag(1, 4) {
            placeholders.push(("g".to_string(), fol::Sort::General));
        }
        if c.flag(1, 5) {
            placeholders.push(("k".to_string(), fol::Sort::Symbol));
        }
        // a second integer placeholder whose name sorts before the others
        if c.aux(5, 4) == 3 {
            placeholders.push(("m".to_string(), fol::Sort::Integer));
        }
        // private names (equal length on both sides so that the second program can be a mutation
        // of the first): equal names (renaming needed), disjoint names, a clash with the `_p`
        // suffix anthem appends, swapped roles
        let (lp, rp) = match c.next(8) {
            // a propositional private predicate (defined by facts or rules) next to a unary one
            6 => (vec![p("a", 1), p("e", 0)], vec![p("a", 1), p("e", 0)]),
            7 => (vec![p("e", 0), p("b", 1)], vec![p("f", 0), p("c", 1)]),
            0 => (vec![p("a", 1)], vec![p("a", 1)]),
            1 => (vec![p("a", 1), p("b", 1)], vec![p("c", 1), p("d", 1)]),
            2 => (vec![p("a", 1), p("a_p", 1)], vec![p("a", 1), p("b", 1)]),
            3 => (vec![p("a", 1), p("b", 1)], vec![p("a", 1), p("b", 1)]),
            4 => (vec![p("a", 1), p("b", 1)], vec![p("b", 1), p("a", 1)]),
            _ => (vec![p("b", 1), p("a", 1)], vec![p("a", 1), p("a_p", 1)]),
        };
        Names {
            inputs: if c.flag(1, 3) { vec![p("in1", 1), p("in2", 1)] } else { vec![p("in1", 1)] },
            outputs: if c.flag(1, 2) { vec![p("o1", 1), p("o2", 1)] } else { vec![p("o1", 1)] },
            left_private: lp,
            right_private: rp,
            placeholders,
            symbols: vec!["u".into(), "w".into()],
        }
    }
}

fn atom(p: &Pred, args: Vec<asp::Term>) -> asp::Atom {
    // 0-ary predicates (used as heads only) take no arguments
    asp::Atom {
        predicate_symbol: p.0.clone(),
        terms: if p.1 == 0 { vec![] } else { args },
    }
}

fn lit(sign: asp::Sign, a: asp::Atom) -> asp::AtomicFormula {
    asp::AtomicFormula::Literal(asp::Literal { sign, atom: a })
}

fn cmp(l: asp::Term, r: asp::Relation, rhs: asp::Term) -> asp::AtomicFormula {
    asp::AtomicFormula::Comparison(asp::Comparison {
        relation: r,
        lhs: l,
        rhs,
    })
}

const RELS: [asp::Relation; 6] = [
    asp::Relation::Equal,
    asp::Relation::NotEqual,
    asp::Relation::Less,
    asp::Relation::LessEqual,
    asp::Relation::Greater,
    asp::Relation::GreaterEqual,
];

/// a small term over a bound variable, numerals and (integer) placeholders
fn small_term(c: &mut Chooser, names: &Names, v: &str) -> asp::Term {
    // one term in ten is a ground quotient or remainder with a negative dividend (`-3 \ 2`, `-7 / 2`): the
    // translations round down, whatever the host language's operators do (choice vectors shorter than 184
    // predate this)
    if c.data.len() >= 184 && c.aux(150 + c.position() as u64, 10) == 0 {
        let dividend = -(1 + c.aux(151 + c.position() as u64, 7) as isize);
        let divisor = 2 + c.aux(152 + c.position() as u64, 2) as isize;
        let op = if c.aux(153 + c.position() as u64, 2) == 0 { asp::BinaryOperator::Modulo } else { asp::BinaryOperator::Divide };
        return binop(op, num(dividend), num(divisor));
    }
    match c.next(9) {
        7 => match names.some_int_placeholder(c) {
            // a placeholder that occurs only inside arithmetic
            Some((n, fol::Sort::Integer)) => binop(asp::BinaryOperator::Add, sym(n), num(1)),
            _ => num(3),
        },
        8 => match names.some_int_placeholder(c) {
            Some((n, fol::Sort::Integer)) => binop(asp::BinaryOperator::Multiply, num(2), sym(n)),
            _ => binop(asp::BinaryOperator::Subtract, var(v), num(1)),
        },
        0 | 1 => num(c.next(4) as isize),
        2 => var(v),
        3 => binop(asp::BinaryOperator::Add, var(v), num(1)),
        4 => match names.some_placeholder(c) {
            Some((n, _)) => sym(n),
            None => num(2),
        },
        5 => sym(c.pick::<String>(&names.symbols)),
        _ => binop(asp::BinaryOperator::Multiply, num(2), var(v)),
    }
}

/// one rule for `head` whose body uses `lower` positively and `negatable` negatively
fn rule_for(c: &mut Chooser, names: &Names, head: &Pred, lower: &[Pred], negatable: &[Pred], may_choice: bool) -> asp::Rule {
    // facts
    if lower.is_empty() || c.flag(1, 6) {
        let arg = match c.next(3) {
            0 => num(c.next(3) as isize),
            1 => binop(asp::BinaryOperator::Interval, num(c.next(2) as isize), num(1 + c.next(3) as isize)),
            _ => sym(c.pick::<String>(&names.symbols)),
        };
        let a = atom(head, vec![arg]);
        return asp::Rule {
            head: if may_choice && c.flag(1, 3) { asp::Head::Choice(a) } else { asp::Head::Basic(a) },
            body: asp::Body { formulas: vec![] },
        };
    }
    let mut body = vec![];
    // X is bound by the first positive literal (a predicate with an argument)
    let binders: Vec<Pred> = lower.iter().filter(|q| q.1 > 0).cloned().collect();
    let first = c.pick(&binders).clone();
    let first_arg = if c.flag(1, 6) { binop(asp::BinaryOperator::Add, var("X"), num(1)) } else { var("X") };
    body.push(lit(asp::Sign::NoSign, atom(&first, vec![first_arg])));
    let mut vars = vec!["X"];
    if c.flag(1, 3) {
        let second = c.pick(lower).clone();
        let v = if c.flag(1, 2) { "Y" } else { "X" };
        body.push(lit(
            if c.flag(1, 5) { asp::Sign::DoubleNegation } else { asp::Sign::NoSign },
            atom(&second, vec![var(v)]),
        ));
        if v == "Y" {
            // a doubly negated literal does not bind: bind Y positively as well
            let binds = matches!(body.last(), Some(asp::AtomicFormula::Literal(l)) if l.sign == asp::Sign::NoSign && !l.atom.terms.is_empty());
            if !binds {
                body.push(lit(asp::Sign::NoSign, atom(c.pick(&binders), vec![var("Y")])));
            }
            vars.push("Y");
        }
    }
    if !negatable.is_empty() && c.flag(1, 3) {
        let q = c.pick(negatable).clone();
        let v = *c.pick(&vars);
        body.push(lit(asp::Sign::Negation, atom(&q, vec![small_term_var(c, v)])));
    }
    if c.flag(2, 5) {
        let v = *c.pick(&vars);
        let rhs = small_term(c, names, vars[vars.len() - 1]);
        let rel = *c.pick(&RELS);
        // one comparison in three is written the other way round (`c != X`, `n + 1 >= X`): the same
        // condition with the constant or placeholder as the leading term (choice vectors shorter than
        // 184 predate this and keep their meaning)
        if c.data.len() >= 184 && c.aux(120 + body.len() as u64, 3) == 0 {
            let mirrored = match rel {
                asp::Relation::Less => asp::Relation::Greater,
                asp::Relation::LessEqual => asp::Relation::GreaterEqual,
                asp::Relation::Greater => asp::Relation::Less,
                asp::Relation::GreaterEqual => asp::Relation::LessEqual,
                r => r,
            };
            body.push(cmp(rhs, mirrored, var(v)));
        } else {
            body.push(cmp(var(v), rel, rhs));
        }
    }
    let head_arg = match c.next(6) {
        0 => binop(asp::BinaryOperator::Add, var("X"), num(1)),
        1 => binop(asp::BinaryOperator::Interval, var("X"), binop(asp::BinaryOperator::Add, var("X"), num(1))),
        2 if vars.len() > 1 => var("Y"),
        _ => var("X"),
    };
    let a = atom(head, vec![head_arg]);
    asp::Rule {
        head: if may_choice && c.flag(1, 4) { asp::Head::Choice(a) } else { asp::Head::Basic(a) },
        body: asp::Body { formulas: body },
    }
}

fn small_term_var(c: &mut Chooser, v: &str) -> asp::Term {
    if c.flag(1, 5) { binop(asp::BinaryOperator::Add, var(v), num(1)) } else { var(v) }
}

/// a program over inputs, the given private predicates and outputs
pub fn program(c: &mut Chooser, names: &Names, private: &[Pred], outputs: &[Pred]) -> asp::Program {
    let mut rules = vec![];
    let mut lower: Vec<Pred> = names.inputs.clone();
    for p in private {
        let n = 1 + c.next(2);
        let negatable = lower.clone();
        for _ in 0..n {
            rules.push(rule_for(c, names, p, &lower, &negatable, false));
        }
        lower.push(p.clone());
    }
    for (i, o) in outputs.iter().enumerate() {
        let n = 1 + c.next(2);
        // negation on any other predicate, including later outputs (no positive cycle arises)
        let mut negatable = lower.clone();
        for (j, other) in outputs.iter().enumerate() {
            if i != j && !negatable.contains(other) {
                negatable.push(other.clone());
            }
        }
        let negatable: Vec<Pred> = negatable.into_iter().filter(|q| q.1 > 0).collect();
        for _ in 0..n {
            rules.push(rule_for(c, names, o, &lower, &negatable, true));
        }
        if o.1 > 0 {
            lower.push(o.clone());
        }
    }
    // constraints
    if c.flag(1, 3) {
        let with_args: Vec<Pred> = lower.iter().filter(|q| q.1 > 0).cloned().collect();
        let p = c.pick(&with_args).clone();
        let mut body = vec![lit(asp::Sign::NoSign, atom(&p, vec![var("X")]))];
        if c.flag(1, 2) {
            let q = c.pick(&lower).clone();
            body.push(lit(asp::Sign::Negation, atom(&q, vec![var("X")])));
        } else {
            let rhs = small_term(c, names, "X");
            body.push(cmp(var("X"), *c.pick(&RELS), rhs));
        }
        rules.push(asp::Rule {
            head: asp::Head::Falsity,
            body: asp::Body { formulas: body },
        });
    }
    // rule order is irrelevant to validity
    if c.flag(1, 3) && rules.len() > 1 {
        let i = c.next(rules.len());
        let r = rules.remove(i);
        rules.push(r);
    }
    asp::Program { rules }
}

fn rename_pred_in_rule(r: &mut asp::Rule, from: &str, to: &str) {
    let fix = |a: &mut asp::Atom| {
        if a.predicate_symbol == from {
            a.predicate_symbol = to.to_string();
        }
    };
    match &mut r.head {
        asp::Head::Basic(a) | asp::Head::Choice(a) => fix(a),
        asp::Head::Falsity => {}
    }
    for f in r.body.formulas.iter_mut() {
        if let asp::AtomicFormula::Literal(l) = f {
            fix(&mut l.atom)
        }
    }
}

/// the second program: a mutation of the first (equivalent or not), valid by construction
pub fn mutate(c: &mut Chooser, names: &Names, left: &asp::Program) -> (asp::Program, &'static str) {
    let mut p = left.clone();
    // map the left private names onto the right private names position-wise (via temporaries)
    for (i, lp) in names.left_private.iter().enumerate() {
        for r in p.rules.iter_mut() {
            rename_pred_in_rule(r, &lp.0, &format!("tmp__{i}"));
        }
    }
    for (i, rp) in names.right_private.iter().enumerate() {
        for r in p.rules.iter_mut() {
            rename_pred_in_rule(r, &format!("tmp__{i}"), &rp.0);
        }
    }
    let kind = match c.next(9) {
        0 | 1 | 2 => "same-up-to-private-names",
        3 => {
            // change a numeral
            let mut done = false;
            let k = c.next(4) as isize;
            for r in p.rules.iter_mut() {
                for f in r.body.formulas.iter_mut() {
                    if let asp::AtomicFormula::Comparison(cmp) = f {
                        if !done {
                            cmp.rhs = num(k);
                            done = true;
                        }
                    }
                }
            }
            if done { "numeral-changed" } else { "same-up-to-private-names" }
        }
        4 => {
            let mut done = false;
            for r in p.rules.iter_mut() {
                for f in r.body.formulas.iter_mut() {
                    if let asp::AtomicFormula::Comparison(cmp) = f {
                        if !done {
                            cmp.relation = *c.pick(&RELS);
                            done = true;
                        }
                    }
                }
            }
            if done { "relation-changed" } else { "same-up-to-private-names" }
        }
        5 => {
            let mut done = false;
            for r in p.rules.iter_mut() {
                for f in r.body.formulas.iter_mut() {
                    if let asp::AtomicFormula::Literal(l) = f {
                        if !done && l.sign == asp::Sign::Negation {
                            l.sign = asp::Sign::DoubleNegation;
                            done = true;
                        }
                    }
                }
            }
            if done { "sign-changed" } else { "same-up-to-private-names" }
        }
        6 => {
            // drop one rule of an output predicate (the predicate may disappear from the program)
            let outs: Vec<usize> = p
                .rules
                .iter()
                .enumerate()
                .filter(|(_, r)| r.head.predicate().is_some_and(|h| names.outputs.iter().any(|o| o.0 == h.symbol)))
                .map(|(i, _)| i)
                .collect();
            if outs.is_empty() {
                "same-up-to-private-names"
            } else {
                let i = outs[c.next(outs.len())];
                p.rules.remove(i);
                "output-rule-dropped"
            }
        }
        7 => {
            // unfold an interval fact into two facts (equivalent)
            let mut extra = vec![];
            for r in p.rules.iter_mut() {
                if !r.body.formulas.is_empty() {
                    continue;
                }
                if let asp::Head::Basic(a) = &mut r.head {
                    if let Some(asp::Term::BinaryOperation {
                        op: asp::BinaryOperator::Interval,
                        lhs,
                        rhs,
                    }) = a.terms.first().cloned()
                    {
                        if let (
                            asp::Term::PrecomputedTerm(asp::PrecomputedTerm::Numeral(lo)),
                            asp::Term::PrecomputedTerm(asp::PrecomputedTerm::Numeral(hi)),
                        ) = (*lhs, *rhs)
                        {
                            if lo <= hi {
                                a.terms[0] = num(lo);
                                for k in lo + 1..=hi {
                                    let mut copy = a.clone();
                                    copy.terms[0] = num(k);
                                    extra.push(asp::Rule {
                                        head: asp::Head::Basic(copy),
                                        body: asp::Body { formulas: vec![] },
                                    });
                                }
                            }
                        }
                    }
                }
            }
            p.rules.extend(extra);
            "interval-unfolded"
        }
        _ => {
            // reorder
            p.rules.reverse();
            "rules-reversed"
        }
    };
    (p, kind)
}

// --------------------------------------------------------------------------------- formulas

fn fvar(v: &str) -> fol::GeneralTerm {
    fol::GeneralTerm::Variable(v.into())
}

fn fatom(p: &Pred, t: fol::GeneralTerm) -> fol::Formula {
    fol::Formula::AtomicFormula(fol::AtomicFormula::Atom(fol::Atom {
        predicate_symbol: p.0.clone(),
        terms: if p.1 == 0 { vec![] } else { vec![t] },
    }))
}

fn fnum(n: isize) -> fol::GeneralTerm {
    fol::GeneralTerm::IntegerTerm(fol::IntegerTerm::Numeral(n))
}

fn placeholder_term(names: &Names, c: &mut Chooser) -> fol::GeneralTerm {
    // in specification / user guide text a placeholder is written as a symbolic constant and
    // replaced by anthem; we generate the symbol form
    match names.some_placeholder(c) {
        Some((n, _)) if c.flag(1, 2) => fol::GeneralTerm::SymbolicTerm(fol::SymbolicTerm::Symbol(n.clone())),
        _ => fnum(c.next(3) as isize),
    }
}

fn frel(c: &mut Chooser) -> fol::Relation {
    *c.pick(&[
        fol::Relation::Equal,
        fol::Relation::NotEqual,
        fol::Relation::Less,
        fol::Relation::LessEqual,
        fol::Relation::Greater,
        fol::Relation::GreaterEqual,
    ])
}

fn fcmp(l: fol::GeneralTerm, r: fol::Relation, rhs: fol::GeneralTerm) -> fol::Formula {
    fol::Formula::AtomicFormula(fol::AtomicFormula::Comparison(fol::Comparison {
        term: l,
        guards: vec![fol::Guard { relation: r, term: rhs }],
    }))
}

fn fbin(c: fol::BinaryConnective, l: fol::Formula, r: fol::Formula) -> fol::Formula {
    fol::Formula::BinaryFormula {
        connective: c,
        lhs: Box::new(l),
        rhs: Box::new(r),
    }
}

fn fnot(f: fol::Formula) -> fol::Formula {
    fol::Formula::UnaryFormula {
        connective: fol::UnaryConnective::Negation,
        formula: Box::new(f),
    }
}

fn fforall(v: &str, f: fol::Formula) -> fol::Formula {
    fol::Formula::QuantifiedFormula {
        quantification: fol::Quantification {
            quantifier: fol::Quantifier::Forall,
            variables: vec![fol::Variable {
                name: v.into(),
                sort: fol::Sort::General,
            }],
        },
        formula: Box::new(f),
    }
}

/// a closed formula over the given predicates: a condition on X built from literals and comparisons
fn condition(c: &mut Chooser, names: &Names, preds: &[Pred]) -> fol::Formula {
    let mut parts = vec![];
    let n = 1 + c.next(2);
    for _ in 0..n {
        let f = match c.next(4) {
            0 if !preds.is_empty() => fnot(fatom(c.pick(preds), fvar("X"))),
            1 => fcmp(fvar("X"), frel(c), placeholder_term(names, c)),
            _ if !preds.is_empty() => fatom(c.pick(preds), fvar("X")),
            _ => fcmp(fvar("X"), frel(c), placeholder_term(names, c)),
        };
        parts.push(f);
    }
    let conj = c.flag(2, 3);
    parts
        .into_iter()
        .reduce(|a, b| {
            fbin(
                if conj { fol::BinaryConnective::Conjunction } else { fol::BinaryConnective::Disjunction },
                a,
                b,
            )
        })
        .unwrap()
}

pub fn annotated(role: fol::Role, direction: fol::Direction, name: &str, formula: fol::Formula) -> fol::AnnotatedFormula {
    fol::AnnotatedFormula {
        role,
        direction,
        name: name.into(),
        formula,
    }
}

fn direction(c: &mut Chooser) -> fol::Direction {
    match c.next(5) {
        0 => fol::Direction::Forward,
        1 => fol::Direction::Backward,
        _ => fol::Direction::Universal,
    }
}

/// user-guide assumptions: closed formulas over input predicates and placeholders
pub fn ug_assumptions(c: &mut Chooser, names: &Names) -> Vec<fol::AnnotatedFormula> {
    let mut out = vec![];
    if c.flag(1, 2) {
        let p = c.pick(&names.inputs).clone();
        let f = fforall(
            "X",
            fbin(
                fol::BinaryConnective::Implication,
                fatom(&p, fvar("X")),
                fcmp(fvar("X"), frel(c), placeholder_term(names, c)),
            ),
        );
        out.push(annotated(fol::Role::Assumption, fol::Direction::Universal, "", f));
    }
    if let Some((n, sort)) = names.placeholders.first() {
        if *sort == fol::Sort::Integer && c.flag(1, 2) {
            let f = fcmp(
                fol::GeneralTerm::SymbolicTerm(fol::SymbolicTerm::Symbol(n.clone())),
                fol::Relation::GreaterEqual,
                fnum(c.next(2) as isize),
            );
            out.push(annotated(fol::Role::Assumption, fol::Direction::Universal, "n_bound", f));
        }
    }
    // an assumption that keeps a symbolic constant out of an input (`forall X (in(X) -> X != c)`): the
    // user guide's assumptions come first in every problem, so a constant can occur there before any
    // other formula mentions it (choice vectors shorter than 184 predate this)
    if c.data.len() >= 184 && !names.symbols.is_empty() && c.aux(140, 3) == 0 {
        let p = names.inputs[c.aux(141, names.inputs.len())].clone();
        if p.1 == 1 {
            let s = names.symbols[c.aux(142, names.symbols.len())].clone();
            let f = fforall(
                "X",
                fbin(
                    fol::BinaryConnective::Implication,
                    fatom(&p, fvar("X")),
                    fcmp(fvar("X"), fol::Relation::NotEqual, fol::GeneralTerm::SymbolicTerm(fol::SymbolicTerm::Symbol(s))),
                ),
            );
            out.push(annotated(fol::Role::Assumption, fol::Direction::Universal, "", f));
        }
    }
    // an assumption relating two placeholders
    if names.placeholders.len() >= 2 && c.aux(6, 2) == 1 {
        let a = &names.placeholders[0];
        let b = &names.placeholders[names.placeholders.len() - 1];
        let f = fcmp(
            fol::GeneralTerm::SymbolicTerm(fol::SymbolicTerm::Symbol(b.0.clone())),
            fol::Relation::LessEqual,
            fol::GeneralTerm::SymbolicTerm(fol::SymbolicTerm::Symbol(a.0.clone())),
        );
        out.push(annotated(fol::Role::Assumption, fol::Direction::Universal, "", f));
    }
    // an annotated formula of a role that a user guide ignores (with a warning): "no input holds";
    // it would change verdicts if it were used as an assumption
    if c.aux(1, 6) == 5 {
        let p = names.inputs[c.aux(2, names.inputs.len())].clone();
        let f = fforall("X", fbin(fol::BinaryConnective::Implication, fatom(&p, fvar("X")), fcmp(fvar("X"), fol::Relation::NotEqual, fvar("X"))));
        let role = [fol::Role::Lemma, fol::Role::Spec, fol::Role::InductiveLemma][c.aux(3, 3)];
        out.insert(c.aux(4, out.len() + 1), annotated(role, fol::Direction::Universal, "", f));
    }
    out
}

pub fn user_guide(names: &Names, assumptions: Vec<fol::AnnotatedFormula>) -> fol::UserGuide {
    let mut entries = vec![];
    for p in &names.inputs {
        entries.push(fol::UserGuideEntry::InputPredicate(fol::Predicate {
            symbol: p.0.clone(),
            arity: p.1,
        }));
    }
    for (n, s) in &names.placeholders {
        entries.push(fol::UserGuideEntry::PlaceholderDeclaration(fol::PlaceholderDeclaration {
            name: n.clone(),
            sort: *s,
        }));
    }
    for p in &names.outputs {
        entries.push(fol::UserGuideEntry::OutputPredicate(fol::Predicate {
            symbol: p.0.clone(),
            arity: p.1,
        }));
    }
    for a in assumptions {
        entries.push(fol::UserGuideEntry::AnnotatedFormula(a));
    }
    fol::UserGuide { entries }
}

/// a specification over public predicates (and optionally one spec-private predicate)
pub fn specification(c: &mut Chooser, names: &Names) -> fol::Specification {
    let mut formulas = vec![];
    if c.flag(1, 3) {
        let p = c.pick(&names.inputs).clone();
        let f = fforall(
            "X",
            fbin(
                fol::BinaryConnective::Implication,
                fatom(&p, fvar("X")),
                fcmp(fvar("X"), frel(c), placeholder_term(names, c)),
            ),
        );
        let d = match c.next(4) {
            0 => fol::Direction::Forward,
            1 => fol::Direction::Backward,
            _ => fol::Direction::Universal,
        };
        formulas.push(annotated(fol::Role::Assumption, d, "spec_assumption", f));
    }
    let mut visible: Vec<Pred> = names.inputs.clone();
    for (i, o) in names.outputs.iter().enumerate() {
        let body = condition(c, names, &visible);
        let conn = match c.next(4) {
            0 => fol::BinaryConnective::Implication,
            1 => fol::BinaryConnective::ReverseImplication,
            _ => fol::BinaryConnective::Equivalence,
        };
        let f = fforall("X", fbin(conn, fatom(o, fvar("X")), body));
        formulas.push(annotated(fol::Role::Spec, direction(c), &format!("about_{}", i), f));
        visible.push(o.clone());
    }
    if c.flag(1, 3) {
        // a chained comparison in a specification formula (never simplified by anthem)
        let o = c.pick(&names.outputs).clone();
        let f = fforall(
            "X",
            fbin(
                fol::BinaryConnective::Implication,
                fatom(&o, fvar("X")),
                fol::Formula::AtomicFormula(fol::AtomicFormula::Comparison(fol::Comparison {
                    term: fnum(0),
                    guards: vec![
                        fol::Guard {
                            relation: fol::Relation::LessEqual,
                            term: fvar("X"),
                        },
                        fol::Guard {
                            relation: fol::Relation::LessEqual,
                            term: fnum(3 + c.next(3) as isize),
                        },
                    ],
                })),
            ),
        );
        formulas.push(annotated(fol::Role::Spec, direction(c), "range", f));
    }
    // formula names given twice, next to a name that looks like a numbered copy (def, def, def_1)
    if c.aux(107, 5) == 0 {
        for (i, f) in formulas.iter_mut().enumerate() {
            f.name = ["def", "def", "def_1", "def_1_1"][i.min(3)].to_string();
        }
    }
    // an existentially quantified equivalence (equivalence breaking must not distribute `exists`
    // over the two halves), decided without consuming a choice
    if c.aux(51, 3) == 0 {
        let o = names.outputs[c.aux(52, names.outputs.len())].clone();
        let i = names.inputs[c.aux(53, names.inputs.len())].clone();
        if o.1 == 1 && i.1 == 1 {
            // `exists X (o(X) <-> not in(X))` is false exactly when o and in coincide: the shape on
            // which a wrongly distributed quantifier shows
            let rhs = match c.aux(54, 4) {
                0 => fatom(&i, fvar("X")),
                1 | 2 => fol::Formula::UnaryFormula {
                    connective: fol::UnaryConnective::Negation,
                    formula: Box::new(fatom(&i, fvar("X"))),
                },
                _ => fcmp(fvar("X"), fol::Relation::Greater, fnum(c.aux(55, 3) as isize)),
            };
            let body = fbin(fol::BinaryConnective::Equivalence, fatom(&o, fvar("X")), rhs);
            let f = fol::Formula::QuantifiedFormula {
                quantification: fol::Quantification {
                    quantifier: fol::Quantifier::Exists,
                    variables: vec![fol::Variable { name: "X".into(), sort: fol::Sort::General }],
                },
                formula: Box::new(body),
            };
            let d = [fol::Direction::Universal, fol::Direction::Backward, fol::Direction::Forward][c.aux(56, 3)];
            formulas.push(annotated(fol::Role::Spec, d, "some", f));
        }
    }
    // a ground specification formula written with the reverse arrow whose head is the only place a symbolic
    // constant occurs in: `o(c) <- in(d)` (choice vectors shorter than 184 predate this)
    if c.data.len() >= 184 && names.symbols.len() >= 2 && c.aux(171, 4) == 0 {
        let o = names.outputs[c.aux(172, names.outputs.len())].clone();
        let i = names.inputs[c.aux(173, names.inputs.len())].clone();
        if o.1 == 1 && i.1 == 1 {
            let k = c.aux(174, names.symbols.len());
            let sym = |n: usize| fol::GeneralTerm::SymbolicTerm(fol::SymbolicTerm::Symbol(names.symbols[n % names.symbols.len()].clone()));
            let f = fbin(fol::BinaryConnective::ReverseImplication, fatom(&o, sym(k)), fatom(&i, sym(k + 1)));
            let d = [fol::Direction::Universal, fol::Direction::Backward, fol::Direction::Forward][c.aux(175, 3)];
            formulas.push(annotated(fol::Role::Spec, d, "about_constant", f));
        }
    }
    // a specification that is silent about a propositional output predicate: the predicate then
    // occurs in some of the emitted problems only
    if let Some(last) = names.outputs.last() {
        if last.1 == 0 && names.outputs.len() > 1 && c.aux(8, 2) == 1 {
            formulas.retain(|f| !f.formula.predicates().iter().any(|q| q.symbol == last.0 && q.arity == 0));
        }
    }
    fol::Specification { formulas }
}

/// the symbolic constants written in a program (the checker's own traversal)
pub fn program_symbols(p: &asp::Program) -> std::collections::BTreeSet<String> {
    fn term(t: &asp::Term, out: &mut std::collections::BTreeSet<String>) {
        match t {
            asp::Term::PrecomputedTerm(asp::PrecomputedTerm::Symbol(s)) => {
                out.insert(s.clone());
            }
            asp::Term::PrecomputedTerm(_) | asp::Term::Variable(_) => {}
            asp::Term::UnaryOperation { arg, .. } => term(arg, out),
            asp::Term::BinaryOperation { lhs, rhs, .. } => {
                term(lhs, out);
                term(rhs, out);
            }
        }
    }
    let mut out = std::collections::BTreeSet::new();
    for r in &p.rules {
        let head_atom = match &r.head {
            asp::Head::Basic(a) | asp::Head::Choice(a) => Some(a),
            asp::Head::Falsity => None,
        };
        for a in head_atom {
            for t in &a.terms {
                term(t, &mut out);
            }
        }
        for f in &r.body.formulas {
            match f {
                asp::AtomicFormula::Literal(l) => {
                    for t in &l.atom.terms {
                        term(t, &mut out);
                    }
                }
                asp::AtomicFormula::Comparison(cmp) => {
                    term(&cmp.lhs, &mut out);
                    term(&cmp.rhs, &mut out);
                }
            }
        }
    }
    out
}

/// the symbolic constants of a task's source files that are not placeholders
pub fn external_source_symbols(task: &ExternalTask) -> std::collections::BTreeSet<String> {
    let mut out = program_symbols(&task.right);
    if let Some(p) = &task.left_program {
        out.extend(program_symbols(p));
    }
    let mut fol_symbols = |f: &fol::Formula| {
        let mut sig = crate::ir::Signature::default();
        crate::ir::lower(f).signature(&mut sig);
        out.extend(sig.syms);
    };
    if let Some(s) = &task.left_spec {
        for f in &s.formulas {
            fol_symbols(&f.formula);
        }
    }
    for e in &task.user_guide.entries {
        if let fol::UserGuideEntry::AnnotatedFormula(f) = e {
            if f.role == fol::Role::Assumption {
                fol_symbols(&f.formula);
            }
        }
    }
    for e in &task.user_guide.entries {
        if let fol::UserGuideEntry::PlaceholderDeclaration(d) = e {
            out.remove(&d.name);
        }
    }
    out
}

#[derive(Clone, Debug)]
pub struct Flags {
    pub sequential: bool,
    pub direction: fol::Direction,
    pub simplify: bool,
    pub eq_break: bool,
}

impl Flags {
    pub fn all8() -> Vec<(bool, bool, bool)> {
        let mut v = vec![];
        for s in [false, true] {
            for si in [true, false] {
                for e in [true, false] {
                    v.push((s, si, e));
                }
            }
        }
        v
    }
    pub fn describe(&self) -> String {
        format!(
            "decomposition={} direction={:?} simplify={} eq_break={}",
            if self.sequential { "sequential" } else { "independent" },
            self.direction,
            self.simplify,
            self.eq_break
        )
    }
}

pub fn flags(c: &mut Chooser) -> Flags {
    Flags {
        sequential: c.flag(1, 2),
        direction: match c.next(3) {
            0 => fol::Direction::Universal,
            1 => fol::Direction::Forward,
            _ => fol::Direction::Backward,
        },
        simplify: c.flag(1, 2),
        eq_break: c.flag(1, 2),
    }
}

#[derive(Clone, Debug)]
pub struct ExternalTask {
    pub names: Names,
    pub left_program: Option<asp::Program>,
    pub left_spec: Option<fol::Specification>,
    pub right: asp::Program,
    pub user_guide: fol::UserGuide,
    pub mutation: &'static str,
}

/// program-vs-program (2/3) or specification-vs-program (1/3)
pub fn external_task(c: &mut Chooser) -> ExternalTask {
    let names = Names::clean(c);
    external_task_with(c, names)
}

/// rename the variables of a program (X, Y) to names that anthem's translations also pick for
/// their own auxiliary variables
pub fn rename_program_variables(p: &mut asp::Program, x: &str, y: &str) {
    fn term(t: &mut asp::Term, x: &str, y: &str) {
        match t {
            asp::Term::Variable(v) => {
                if v.0 == "X" {
                    v.0 = x.to_string();
                } else if v.0 == "Y" {
                    v.0 = y.to_string();
                }
            }
            asp::Term::PrecomputedTerm(_) => {}
            asp::Term::UnaryOperation { arg, .. } => term(arg, x, y),
            asp::Term::BinaryOperation { lhs, rhs, .. } => {
                term(lhs, x, y);
                term(rhs, x, y);
            }
        }
    }
    for r in &mut p.rules {
        match &mut r.head {
            asp::Head::Basic(a) | asp::Head::Choice(a) => a.terms.iter_mut().for_each(|t| term(t, x, y)),
            asp::Head::Falsity => {}
        }
        for f in &mut r.body.formulas {
            match f {
                asp::AtomicFormula::Literal(l) => l.atom.terms.iter_mut().for_each(|t| term(t, x, y)),
                asp::AtomicFormula::Comparison(cmp) => {
                    term(&mut cmp.lhs, x, y);
                    term(&mut cmp.rhs, x, y);
                }
            }
        }
    }
}

pub fn external_task_with(c: &mut Chooser, names: Names) -> ExternalTask {
    let mut task = external_task_plain(c, names);
    // one task in three (choice vectors of 180 and more entries; shorter recorded ones keep their
    // meaning) also has a binary input predicate e2 and a binary output predicate p2, defined on the
    // first side by `p2(X,Y) :- e2(X,Y), in(X).` and on the second side by an equivalent or a
    // different variant; every other generator works with predicates of arity 0 and 1 only
    if c.data.len() >= 180 && c.aux(101, 3) == 0 && task.names.inputs[0].1 == 1 {
        let i = task.names.inputs[0].0.clone();
        // the binary output is called p2 - or, one time in three, like the first private predicate of the
        // second program, which has another arity (`a/1` private, `a/2` public): names are told apart by
        // arity everywhere (choice vectors shorter than 184 predate this)
        let p2 = if c.data.len() >= 184 && c.aux(176, 3) == 0 && task.names.right_private.first().is_some_and(|q| q.1 == 1) {
            task.names.right_private[0].0.clone()
        } else {
            "p2".to_string()
        };
        let first = format!("{p2}(X,Y) :- e2(X,Y), {i}(X).");
        let second = [
            format!("{p2}(X,Y) :- {i}(X), e2(X,Y)."),
            format!("{p2}(X,Y) :- e2(X,Y), {i}(X), X = X."),
            format!("{p2}(X,Y) :- e2(X,Y)."),
            format!("{p2}(Y,X) :- e2(X,Y), {i}(X)."),
            format!("{p2}(X,Y) :- e2(X,Y), {i}(X), not e2(Y,X)."),
            format!("{p2}(X,Y) :- e2(X,Y), {i}(X).\n{p2}(X,X) :- e2(X,X)."),
        ][c.aux(102, 6)]
        .clone();
        if let Ok(p) = second.parse::<asp::Program>() {
            task.right.rules.extend(p.rules);
        }
        match (task.left_program.as_mut(), task.left_spec.as_mut()) {
            (Some(p), _) => {
                if let Ok(r) = first.parse::<asp::Rule>() {
                    p.rules.push(r);
                }
            }
            (_, Some(spec)) => {
                if let Ok(f) = format!("forall X Y ({p2}(X,Y) <-> e2(X,Y) and {i}(X))").parse::<fol::Formula>() {
                    spec.formulas.push(annotated(fol::Role::Spec, fol::Direction::Universal, "about_p2", f));
                }
            }
            _ => {}
        }
        task.user_guide.entries.push(fol::UserGuideEntry::InputPredicate(fol::Predicate { symbol: "e2".into(), arity: 2 }));
        task.user_guide.entries.push(fol::UserGuideEntry::OutputPredicate(fol::Predicate { symbol: p2.clone(), arity: 2 }));
        task.names.inputs.push(("e2".to_string(), 2));
        task.names.outputs.push((p2.clone(), 2));
    }
    // one task in four with an integer placeholder: a sanity check on the placeholder, a constraint without
    // any atom (`:- n < 1.`), in the second program and, half of the time, in the first as well (choice
    // vectors shorter than 184 predate this)
    if c.data.len() >= 184 && c.aux(177, 4) == 0 {
        if let Some((n, _)) = task.names.placeholders.iter().find(|p| p.1 == fol::Sort::Integer) {
            let text = [format!(":- {n} < 1."), format!(":- {n} > 2."), format!(":- {n} = 0."), format!(":- 2*{n} < 1, {n} != 5.")][c.aux(178, 4)].clone();
            if let Ok(r) = text.parse::<asp::Rule>() {
                task.right.rules.push(r.clone());
                if c.aux(179, 2) == 0 {
                    if let Some(p) = task.left_program.as_mut() {
                        p.rules.push(r);
                    }
                }
            }
        }
    }
    // one program-vs-program task in eight: the second program has lost every rule of every output
    // predicate (a draft that does not derive its outputs yet): several declared output predicates occur
    // on one side only
    if c.data.len() >= 180 && c.aux(103, 8) == 0 && task.left_program.is_some() && task.names.outputs.len() >= 2 {
        let outputs: Vec<Pred> = task.names.outputs.clone();
        task.right.rules.retain(|r| !r.head.predicate().is_some_and(|h| outputs.contains(&(h.symbol.clone(), h.arity))));
        task.mutation = "all-output-rules-dropped";
    }
    // one task in five with an integer placeholder: a ground comparison between the placeholder and a
    // numeral (`n != 0`, `n = 1`) joins the body of the first rule of the second program (and, half of the
    // time, of the first program): its truth depends on the interpretation of the placeholder alone
    if c.data.len() >= 180 && c.aux(108, 5) == 0 {
        if let Some((n, _)) = task.names.placeholders.iter().find(|p| p.1 == fol::Sort::Integer).cloned() {
            let rel = [asp::Relation::NotEqual, asp::Relation::Equal, asp::Relation::NotEqual][c.aux(109, 3)];
            let k = c.aux(110, 3) as isize;
            let extra = if c.aux(111, 2) == 0 { cmp(sym(&n), rel, num(k)) } else { cmp(num(k), rel, sym(&n)) };
            if let Some(r) = task.right.rules.iter_mut().find(|r| !r.body.formulas.is_empty()) {
                r.body.formulas.push(extra.clone());
            }
            if c.aux(112, 2) == 0 {
                if let Some(r) = task.left_program.as_mut().and_then(|p| p.rules.iter_mut().find(|r| !r.body.formulas.is_empty())) {
                    r.body.formulas.push(extra);
                }
            }
        }
    }
    // in one task of three the program variables carry names that tau*, natural and the simplifier
    // also use for their fresh variables (decided without consuming a choice)
    const ALIASES: [(&str, &str); 6] = [("K", "I"), ("J", "N"), ("I", "J1"), ("V1", "Z"), ("Q", "R"), ("N1", "K")];
    if c.aux(61, 3) == 0 {
        let (x, y) = ALIASES[c.aux(62, ALIASES.len())];
        if let Some(p) = task.left_program.as_mut() {
            rename_program_variables(p, x, y);
        }
        rename_program_variables(&mut task.right, x, y);
    }
    task
}

fn external_task_plain(c: &mut Chooser, names: Names) -> ExternalTask {
    let ug = ug_assumptions(c, &names);
    if c.flag(2, 3) {
        let left = program(c, &names, &names.left_private.clone(), &names.outputs.clone());
        let (right, mutation) = mutate(c, &names, &left);
        ExternalTask {
            user_guide: user_guide(&names, ug),
            names,
            left_program: Some(left),
            left_spec: None,
            right,
            mutation,
        }
    } else {
        let spec = specification(c, &names);
        let right = program(c, &names, &names.right_private.clone(), &names.outputs.clone());
        ExternalTask {
            user_guide: user_guide(&names, ug),
            names,
            left_program: None,
            left_spec: Some(spec),
            right,
            mutation: "specification",
        }
    }
}
