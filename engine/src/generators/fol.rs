//! Generators for target-language terms, formulas and interpretations (construction, not rejection).
use crate::dom::{Interp, Sort, Val};
use crate::ir::{self, Signature, VarId};
use anthem::syntax_tree::fol::sigma_0 as fol;
use proptest::collection::vec;
use proptest::prelude::*;
use proptest::sample::select;
use std::collections::BTreeSet;

#[derive(Clone, Debug)]
pub struct FolCfg {
    pub preds: Vec<(String, usize)>,
    pub gvars: Vec<String>,
    pub ivars: Vec<String>,
    pub svars: Vec<String>,
    pub syms: Vec<String>,
    pub fcs: Vec<(String, Sort)>,
    pub num_lo: isize,
    pub num_hi: isize,
    pub depth: u32,
    pub max_guards: usize,
    pub term_depth: u32,
}

impl FolCfg {
    pub fn small() -> FolCfg {
        FolCfg {
            preds: vec![("p".into(), 1), ("q".into(), 1), ("r".into(), 2), ("s".into(), 0)],
            gvars: vec!["X".into(), "Y".into(), "Z".into()],
            ivars: vec!["X".into(), "N".into(), "I".into()],
            svars: vec!["S".into(), "X".into()],
            syms: vec!["a".into(), "b".into()],
            fcs: vec![("c".into(), Sort::G), ("n".into(), Sort::I), ("k".into(), Sort::S)],
            num_lo: -2,
            num_hi: 3,
            depth: 4,
            max_guards: 3,
            term_depth: 2,
        }
    }
}

pub fn s(x: &str) -> String {
    x.to_string()
}

pub fn int_term(cfg: &FolCfg) -> BoxedStrategy<fol::IntegerTerm> {
    let mut leaves: Vec<BoxedStrategy<fol::IntegerTerm>> = vec![
        (cfg.num_lo..=cfg.num_hi)
            .prop_map(fol::IntegerTerm::Numeral)
            .boxed(),
    ];
    if !cfg.ivars.is_empty() {
        leaves.push(
            select(cfg.ivars.clone())
                .prop_map(fol::IntegerTerm::Variable)
                .boxed(),
        );
    }
    let ifcs: Vec<String> = cfg
        .fcs
        .iter()
        .filter(|f| f.1 == Sort::I)
        .map(|f| f.0.clone())
        .collect();
    if !ifcs.is_empty() {
        leaves.push(
            select(ifcs)
                .prop_map(fol::IntegerTerm::FunctionConstant)
                .boxed(),
        );
    }
    let leaf = proptest::strategy::Union::new(leaves);
    leaf.prop_recursive(cfg.term_depth, 8, 2, |inner| {
        prop_oneof![
            1 => inner.clone().prop_map(|a| fol::IntegerTerm::UnaryOperation {
                op: fol::UnaryOperator::Negative,
                arg: Box::new(a)
            }),
            3 => (
                select(vec![
                    fol::BinaryOperator::Add,
                    fol::BinaryOperator::Subtract,
                    fol::BinaryOperator::Multiply
                ]),
                inner.clone(),
                inner
            )
                .prop_map(|(op, l, r)| fol::IntegerTerm::BinaryOperation {
                    op,
                    lhs: Box::new(l),
                    rhs: Box::new(r)
                }),
        ]
    })
    .boxed()
}

pub fn sym_term(cfg: &FolCfg) -> BoxedStrategy<fol::SymbolicTerm> {
    let mut leaves: Vec<BoxedStrategy<fol::SymbolicTerm>> =
        vec![select(cfg.syms.clone()).prop_map(fol::SymbolicTerm::Symbol).boxed()];
    if !cfg.svars.is_empty() {
        leaves.push(
            select(cfg.svars.clone())
                .prop_map(fol::SymbolicTerm::Variable)
                .boxed(),
        );
    }
    let sfcs: Vec<String> = cfg
        .fcs
        .iter()
        .filter(|f| f.1 == Sort::S)
        .map(|f| f.0.clone())
        .collect();
    if !sfcs.is_empty() {
        leaves.push(
            select(sfcs)
                .prop_map(fol::SymbolicTerm::FunctionConstant)
                .boxed(),
        );
    }
    proptest::strategy::Union::new(leaves).boxed()
}

pub fn gen_term(cfg: &FolCfg) -> BoxedStrategy<fol::GeneralTerm> {
    let mut alts: Vec<(u32, BoxedStrategy<fol::GeneralTerm>)> = vec![
        (1, Just(fol::GeneralTerm::Infimum).boxed()),
        (1, Just(fol::GeneralTerm::Supremum).boxed()),
        (6, int_term(cfg).prop_map(fol::GeneralTerm::IntegerTerm).boxed()),
        (3, sym_term(cfg).prop_map(fol::GeneralTerm::SymbolicTerm).boxed()),
    ];
    if !cfg.gvars.is_empty() {
        alts.push((
            6,
            select(cfg.gvars.clone())
                .prop_map(fol::GeneralTerm::Variable)
                .boxed(),
        ));
    }
    let gfcs: Vec<String> = cfg
        .fcs
        .iter()
        .filter(|f| f.1 == Sort::G)
        .map(|f| f.0.clone())
        .collect();
    if !gfcs.is_empty() {
        alts.push((
            1,
            select(gfcs)
                .prop_map(fol::GeneralTerm::FunctionConstant)
                .boxed(),
        ));
    }
    proptest::strategy::Union::new_weighted(alts).boxed()
}

pub fn relation() -> BoxedStrategy<fol::Relation> {
    select(vec![
        fol::Relation::Equal,
        fol::Relation::NotEqual,
        fol::Relation::Less,
        fol::Relation::LessEqual,
        fol::Relation::Greater,
        fol::Relation::GreaterEqual,
    ])
    .boxed()
}

pub fn atom(cfg: &FolCfg) -> BoxedStrategy<fol::Atom> {
    let cfg2 = cfg.clone();
    select(cfg.preds.clone())
        .prop_flat_map(move |(name, arity)| {
            vec(gen_term(&cfg2), arity).prop_map(move |terms| fol::Atom {
                predicate_symbol: name.clone(),
                terms,
            })
        })
        .boxed()
}

pub fn comparison(cfg: &FolCfg) -> BoxedStrategy<fol::Comparison> {
    (
        gen_term(cfg),
        vec((relation(), gen_term(cfg)), 1..=cfg.max_guards),
    )
        .prop_map(|(term, gs)| fol::Comparison {
            term,
            guards: gs
                .into_iter()
                .map(|(relation, term)| fol::Guard { relation, term })
                .collect(),
        })
        .boxed()
}

pub fn variable(cfg: &FolCfg) -> BoxedStrategy<fol::Variable> {
    let mut alts: Vec<(u32, BoxedStrategy<fol::Variable>)> = vec![];
    if !cfg.gvars.is_empty() {
        alts.push((
            4,
            select(cfg.gvars.clone())
                .prop_map(|name| fol::Variable {
                    name,
                    sort: fol::Sort::General,
                })
                .boxed(),
        ));
    }
    if !cfg.ivars.is_empty() {
        alts.push((
            3,
            select(cfg.ivars.clone())
                .prop_map(|name| fol::Variable {
                    name,
                    sort: fol::Sort::Integer,
                })
                .boxed(),
        ));
    }
    if !cfg.svars.is_empty() {
        alts.push((
            1,
            select(cfg.svars.clone())
                .prop_map(|name| fol::Variable {
                    name,
                    sort: fol::Sort::Symbol,
                })
                .boxed(),
        ));
    }
    proptest::strategy::Union::new_weighted(alts).boxed()
}

pub fn atomic(cfg: &FolCfg) -> BoxedStrategy<fol::Formula> {
    prop_oneof![
        1 => Just(fol::AtomicFormula::Truth),
        1 => Just(fol::AtomicFormula::Falsity),
        8 => atom(cfg).prop_map(fol::AtomicFormula::Atom),
        6 => comparison(cfg).prop_map(fol::AtomicFormula::Comparison),
    ]
    .prop_map(fol::Formula::AtomicFormula)
    .boxed()
}

pub fn connective() -> BoxedStrategy<fol::BinaryConnective> {
    prop_oneof![
        3 => Just(fol::BinaryConnective::Conjunction),
        3 => Just(fol::BinaryConnective::Disjunction),
        3 => Just(fol::BinaryConnective::Implication),
        1 => Just(fol::BinaryConnective::ReverseImplication),
        2 => Just(fol::BinaryConnective::Equivalence),
    ]
    .boxed()
}

pub fn not(f: fol::Formula) -> fol::Formula {
    fol::Formula::UnaryFormula {
        connective: fol::UnaryConnective::Negation,
        formula: Box::new(f),
    }
}

pub fn bin(c: fol::BinaryConnective, l: fol::Formula, r: fol::Formula) -> fol::Formula {
    fol::Formula::BinaryFormula {
        connective: c,
        lhs: Box::new(l),
        rhs: Box::new(r),
    }
}

pub fn quant(forall: bool, variables: Vec<fol::Variable>, f: fol::Formula) -> fol::Formula {
    fol::Formula::QuantifiedFormula {
        quantification: fol::Quantification {
            quantifier: if forall {
                fol::Quantifier::Forall
            } else {
                fol::Quantifier::Exists
            },
            variables,
        },
        formula: Box::new(f),
    }
}

/// arbitrary formulas with unguarded quantifiers (window-mode properties)
pub fn formula(cfg: &FolCfg) -> BoxedStrategy<fol::Formula> {
    let cfg2 = cfg.clone();
    atomic(cfg)
        .prop_recursive(cfg.depth, 24, 3, move |inner| {
            prop_oneof![
                2 => inner.clone().prop_map(not),
                5 => (connective(), inner.clone(), inner.clone()).prop_map(|(c, l, r)| bin(c, l, r)),
                3 => (any::<bool>(), vec(variable(&cfg2), 1..=3), inner)
                    .prop_map(|(fa, vs, f)| quant(fa, vs, f)),
            ]
        })
        .boxed()
}

// ---------------------------------------------------------------------------------------
// interpretations

/// the active values of a case: constants of the formulas, neighbours, symbols (one extra), #inf, #sup
pub fn value_pool(sig: &Signature, extra_syms: &[&str]) -> Vec<Val> {
    let mut ints: BTreeSet<i128> = BTreeSet::new();
    for n in &sig.nums {
        for d in -1..=1 {
            ints.insert(n + d);
        }
    }
    for n in 0..=2 {
        ints.insert(n);
    }
    let nums: Vec<i128> = sig.nums.iter().cloned().collect();
    for (i, a) in nums.iter().enumerate().take(4) {
        for b in nums.iter().skip(i).take(4) {
            if let Some(s) = a.checked_add(*b) {
                ints.insert(s);
            }
            if let Some(s) = a.checked_mul(*b) {
                ints.insert(s);
            }
        }
    }
    let mut pool: Vec<Val> = vec![Val::Inf];
    pool.extend(ints.into_iter().filter(|n| n.abs() < 1_000_000).take(14).map(Val::Int));
    let mut syms: BTreeSet<String> = sig.syms.iter().cloned().collect();
    for s in extra_syms {
        syms.insert(s.to_string());
    }
    pool.extend(syms.into_iter().take(4).map(Val::Sym));
    pool.push(Val::Sup);
    pool
}

/// raw material for an interpretation: per predicate a list of index tuples into the pool,
/// per function constant an index; resolved against a pool by `build_interp`
#[derive(Clone, Debug)]
pub struct RawInterp {
    pub tuples: Vec<Vec<Vec<u16>>>,
    pub fcs: Vec<u16>,
    /// which tuples of T are also in H
    pub in_h: Vec<Vec<bool>>,
}

pub fn raw_interp(npreds: usize, nfcs: usize, max_arity: usize, max_tuples: usize) -> BoxedStrategy<RawInterp> {
    (
        vec(
            vec(vec(any::<u16>(), max_arity.max(1)), 0..=max_tuples),
            npreds,
        ),
        vec(any::<u16>(), nfcs),
        vec(vec(any::<bool>(), max_tuples), npreds),
    )
        .prop_map(|(tuples, fcs, in_h)| RawInterp { tuples, fcs, in_h })
        .boxed()
}

pub fn idx(i: u16, len: usize) -> usize {
    (i as usize * len) >> 16
}

/// (H, T) with H ⊆ T
pub fn build_interp(
    raw: &RawInterp,
    preds: &[(String, usize)],
    fcs: &[VarId],
    pool: &[Val],
) -> (Interp, Interp) {
    let mut t = Interp::default();
    let mut h = Interp::default();
    for (pi, (name, arity)) in preds.iter().enumerate() {
        t.preds.entry((name.clone(), *arity)).or_default();
        h.preds.entry((name.clone(), *arity)).or_default();
        let Some(ts) = raw.tuples.get(pi) else { continue };
        for (ti, tuple) in ts.iter().enumerate() {
            let vals: Vec<Val> = (0..*arity)
                // positions beyond the raw tuple re-use its entries with an offset, so that wide
                // tuples are not periodic (a permutation of arguments must be visible)
                .map(|k| pool[idx(tuple[k % tuple.len()].wrapping_add(((k / tuple.len()) as u16).wrapping_mul(25717)), pool.len())].clone())
                .collect();
            if raw.in_h.get(pi).and_then(|v| v.get(ti)).copied().unwrap_or(false) {
                h.insert(name, vals.clone());
            }
            t.insert(name, vals);
        }
    }
    for (fi, (name, sort)) in fcs.iter().enumerate() {
        let cands: Vec<&Val> = pool.iter().filter(|v| sort.admits(v)).collect();
        let v = if cands.is_empty() {
            match sort {
                Sort::I => Val::Int(0),
                Sort::S => Val::Sym("a".into()),
                Sort::G => Val::Inf,
            }
        } else {
            cands[idx(raw.fcs.get(fi).copied().unwrap_or(0), cands.len())].clone()
        };
        t.fcs.insert((name.clone(), *sort), v.clone());
        h.fcs.insert((name.clone(), *sort), v);
    }
    (h, t)
}

/// environment for free variables, from the pool
pub fn build_env(free: &BTreeSet<VarId>, choices: &[u16], pool: &[Val]) -> Vec<(VarId, Val)> {
    free.iter()
        .enumerate()
        .map(|(i, v)| {
            let cands: Vec<&Val> = pool.iter().filter(|x| v.1.admits(x)).collect();
            let c = choices.get(i % choices.len().max(1)).copied().unwrap_or(0);
            let val = if cands.is_empty() {
                match v.1 {
                    Sort::I => Val::Int(0),
                    Sort::S => Val::Sym("a".into()),
                    Sort::G => Val::Inf,
                }
            } else {
                cands[idx(c, cands.len())].clone()
            };
            (v.clone(), val)
        })
        .collect()
}

pub fn signature_of(fs: &[&fol::Formula]) -> (Signature, Vec<ir::Fm>) {
    let lowered: Vec<ir::Fm> = fs.iter().map(|f| ir::lower(f)).collect();
    let refs: Vec<&ir::Fm> = lowered.iter().collect();
    (Signature::of(&refs), lowered)
}

// ---------------------------------------------------------------------------------------
// formulas for the exact evaluator: quantifiers are mostly guarded so that verdicts are definite

fn gterm_of(v: &fol::Variable) -> fol::GeneralTerm {
    match v.sort {
        fol::Sort::General => fol::GeneralTerm::Variable(v.name.clone()),
        fol::Sort::Integer => fol::GeneralTerm::IntegerTerm(fol::IntegerTerm::Variable(v.name.clone())),
        fol::Sort::Symbol => fol::GeneralTerm::SymbolicTerm(fol::SymbolicTerm::Variable(v.name.clone())),
    }
}

pub fn cmp(l: fol::GeneralTerm, guards: Vec<(fol::Relation, fol::GeneralTerm)>) -> fol::Formula {
    fol::Formula::AtomicFormula(fol::AtomicFormula::Comparison(fol::Comparison {
        term: l,
        guards: guards
            .into_iter()
            .map(|(relation, term)| fol::Guard { relation, term })
            .collect(),
    }))
}

pub fn num_term(n: isize) -> fol::GeneralTerm {
    fol::GeneralTerm::IntegerTerm(fol::IntegerTerm::Numeral(n))
}

/// a guard that bounds `v`: an atom with v as an argument, `v = t`, `t = v`, or `lo <= v <= hi`
pub fn guard_for(v: &fol::Variable, cfg: &FolCfg) -> BoxedStrategy<fol::Formula> {
    let vt = gterm_of(v);
    let preds: Vec<(String, usize)> = cfg.preds.iter().filter(|p| p.1 > 0).cloned().collect();
    let cfg2 = cfg.clone();
    let vt1 = vt.clone();
    let atom_guard = (select(preds), any::<u8>())
        .prop_flat_map(move |((name, arity), pos)| {
            let vt = vt1.clone();
            let pos = pos as usize % arity;
            vec(gen_term(&cfg2), arity).prop_map(move |mut terms| {
                terms[pos] = vt.clone();
                fol::Formula::AtomicFormula(fol::AtomicFormula::Atom(fol::Atom {
                    predicate_symbol: name.clone(),
                    terms,
                }))
            })
        })
        .boxed();
    let value: BoxedStrategy<fol::GeneralTerm> = match v.sort {
        fol::Sort::General => gen_term(cfg),
        // an integer variable is also compared with general variables (`I$i = Z`), the shape
        // the translators produce and the quantifier-domain rewrites look for
        fol::Sort::Integer => {
            if cfg.gvars.is_empty() {
                int_term(cfg).prop_map(fol::GeneralTerm::IntegerTerm).boxed()
            } else {
                prop_oneof![
                    3 => int_term(cfg).prop_map(fol::GeneralTerm::IntegerTerm),
                    2 => select(cfg.gvars.clone()).prop_map(fol::GeneralTerm::Variable),
                ]
                .boxed()
            }
        }
        fol::Sort::Symbol => sym_term(cfg).prop_map(fol::GeneralTerm::SymbolicTerm).boxed(),
    };
    let vt2 = vt.clone();
    let eq_guard = (value, any::<bool>())
        .prop_map(move |(t, flip)| {
            if flip {
                cmp(t, vec![(fol::Relation::Equal, vt2.clone())])
            } else {
                cmp(vt2.clone(), vec![(fol::Relation::Equal, t)])
            }
        })
        .boxed();
    if v.sort == fol::Sort::Symbol {
        return prop_oneof![3 => atom_guard, 2 => eq_guard].boxed();
    }
    let vt3 = vt.clone();
    let (lo, hi) = (cfg.num_lo, cfg.num_hi);
    let range_guard = (lo..=hi, 0isize..4, any::<bool>())
        .prop_map(move |(a, w, chain)| {
            if chain {
                cmp(
                    num_term(a),
                    vec![
                        (fol::Relation::LessEqual, vt3.clone()),
                        (fol::Relation::LessEqual, num_term(a + w)),
                    ],
                )
            } else {
                bin(
                    fol::BinaryConnective::Conjunction,
                    cmp(vt3.clone(), vec![(fol::Relation::GreaterEqual, num_term(a))]),
                    cmp(vt3.clone(), vec![(fol::Relation::Less, num_term(a + w))]),
                )
            }
        })
        .boxed();
    prop_oneof![4 => atom_guard, 3 => eq_guard, 2 => range_guard].boxed()
}

fn conj_all(mut parts: Vec<fol::Formula>, left_nested: bool) -> fol::Formula {
    if left_nested {
        fol::Formula::conjoin(parts)
    } else {
        let mut acc = parts.pop().unwrap();
        while let Some(p) = parts.pop() {
            acc = bin(fol::BinaryConnective::Conjunction, p, acc);
        }
        acc
    }
}

/// formulas whose quantifiers are guarded with probability ~0.75
pub fn guarded_formula(cfg: &FolCfg) -> BoxedStrategy<fol::Formula> {
    let cfg2 = cfg.clone();
    atomic(cfg)
        .prop_recursive(cfg.depth, 24, 3, move |inner| {
            let cfg3 = cfg2.clone();
            let guarded = (any::<bool>(), vec(variable(&cfg2), 1..=3), inner.clone(), any::<bool>(), any::<bool>())
                .prop_flat_map(move |(forall, vars, body, left, dup)| {
                    let guards: Vec<BoxedStrategy<fol::Formula>> = vars.iter().map(|v| guard_for(v, &cfg3)).collect();
                    (Just(forall), Just(vars), guards, Just(body), Just(left), Just(dup))
                })
                .prop_map(|(forall, vars, guards, body, left, dup)| {
                    let mut parts = guards;
                    if dup {
                        // duplicated conjunct
                        let first = parts[0].clone();
                        parts.push(first);
                    }
                    if forall {
                        let g = conj_all(parts, left);
                        quant(true, vars, bin(fol::BinaryConnective::Implication, g, body))
                    } else {
                        parts.push(body);
                        quant(false, vars, conj_all(parts, left))
                    }
                });
            // the shape the quantifier-domain rewrite looks for: an outer general variable equated
            // with an inner integer variable, where the inner block may re-bind the outer variable
            let gv = cfg2.gvars.clone();
            let iv = cfg2.ivars.clone();
            let preds_for_family = cfg2.preds.clone();
            let domain_shape = (
                (select(gv), select(iv), any::<bool>(), any::<bool>()),
                (any::<bool>(), any::<bool>(), any::<bool>(), 0u8..6),
                inner.clone(),
                inner.clone(),
            )
                .prop_map(move |((z, i, forall, flip), (rebind, extra_outer, left, conn_choice), rest, other)| {
                    // every other time the names form a family: outer general Z, inner integer Z1, and an
                    // integer variable Z free in the other operand - every name a fresh-name search that
                    // starts from Z or Z1 walks past
                    let family = rest.to_string().len() % 2 == 0;
                    let i = if family { format!("{z}1") } else { i };
                    let other = if family {
                        let unary = preds_for_family.iter().find(|p| p.1 == 1).map(|p| p.0.clone()).unwrap_or_else(|| "p".to_string());
                        bin(
                            fol::BinaryConnective::Conjunction,
                            other,
                            fol::Formula::AtomicFormula(fol::AtomicFormula::Atom(fol::Atom {
                                predicate_symbol: unary,
                                terms: vec![fol::GeneralTerm::IntegerTerm(fol::IntegerTerm::Variable(z.clone()))],
                            })),
                        )
                    } else {
                        other
                    };
                    let zv = fol::Variable { name: z.clone(), sort: fol::Sort::General };
                    let ivar = fol::Variable { name: i.clone(), sort: fol::Sort::Integer };
                    let eq = if flip {
                        cmp(gterm_of(&zv), vec![(fol::Relation::Equal, gterm_of(&ivar))])
                    } else {
                        cmp(gterm_of(&ivar), vec![(fol::Relation::Equal, gterm_of(&zv))])
                    };
                    let mut inner_vars = vec![ivar.clone()];
                    if rebind {
                        inner_vars.insert(0, zv.clone());
                    }
                    let inner_body = if left {
                        bin(fol::BinaryConnective::Conjunction, eq, rest)
                    } else {
                        bin(fol::BinaryConnective::Conjunction, rest, eq)
                    };
                    let inner_q = quant(false, inner_vars, inner_body);
                    let mut outer_vars = vec![zv];
                    if extra_outer {
                        outer_vars.push(fol::Variable { name: "Y".into(), sort: fol::Sort::General });
                    }
                    // the sound shapes are `forall (inner -> other)` and `exists (inner and other)`;
                    // the neighbouring connectives are generated too (a rewrite must not fire on them,
                    // or must stay sound if it does)
                    let conn = match conn_choice {
                        0..=2 => {
                            if forall { fol::BinaryConnective::Implication } else { fol::BinaryConnective::Conjunction }
                        }
                        3 => fol::BinaryConnective::Equivalence,
                        4 => fol::BinaryConnective::Disjunction,
                        _ => {
                            if forall { fol::BinaryConnective::Conjunction } else { fol::BinaryConnective::Implication }
                        }
                    };
                    quant(forall, outer_vars, bin(conn, inner_q, other))
                });
            // two implications over the same pair of formulas, written with -> or <- and with the
            // operands in either order: `(F -> G) and (G -> F)` is the definition of an equivalence,
            // `(F -> G) and (G <- F)` states one implication twice
            let equivalence_shape = (inner.clone(), inner.clone(), 0u8..16)
                .prop_map(|(f, g, k)| {
                    let arrow = |rev: bool| if rev { fol::BinaryConnective::ReverseImplication } else { fol::BinaryConnective::Implication };
                    let first = bin(arrow(k & 1 != 0), f.clone(), g.clone());
                    let second = if k & 2 != 0 { bin(arrow(k & 4 != 0), f, g) } else { bin(arrow(k & 4 != 0), g, f) };
                    bin(if k & 8 != 0 && k & 7 == 7 { fol::BinaryConnective::Disjunction } else { fol::BinaryConnective::Conjunction }, first, second)
                });
            // the shape the transitive-equality rewrite looks for: two variables of one block equated with
            // the same term, `exists X Y (X = t and Y = t and F)`; the equalities are written either way
            // round, and one of them may go on as a chain (`Y = t <= u`), which says more than an equality
            let cfg4 = cfg2.clone();
            let transitive_shape = (
                (variable(&cfg2), variable(&cfg2), gen_term(&cfg2), gen_term(&cfg2)),
                (any::<bool>(), 0u8..8, 0u8..4, select(vec![fol::Relation::LessEqual, fol::Relation::Less, fol::Relation::NotEqual, fol::Relation::Equal, fol::Relation::GreaterEqual])),
                inner.clone(),
            )
                .prop_map(move |((v1, mut v2, t, u), (forall, flips, chained, rel), body)| {
                    if v2 == v1 {
                        v2 = fol::Variable { name: format!("{}9", v1.name), sort: v1.sort };
                    }
                    // an integer variable is equated with a general variable half of the time (the shape of
                    // the translations), so that neither variable can simply be substituted away
                    let t = if v1.sort == fol::Sort::Integer && flips & 4 != 0 && !cfg4.gvars.is_empty() {
                        fol::GeneralTerm::Variable(cfg4.gvars[0].clone())
                    } else {
                        t
                    };
                    let eq = |v: &fol::Variable, flip: bool, chain: bool| {
                        let mut guards = vec![(fol::Relation::Equal, if flip { gterm_of(v) } else { t.clone() })];
                        if chain {
                            guards.push((rel, u.clone()));
                        }
                        cmp(if flip { t.clone() } else { gterm_of(v) }, guards)
                    };
                    let first = eq(&v1, flips & 1 != 0, chained == 1);
                    let second = eq(&v2, flips & 2 != 0, chained == 2);
                    let parts = vec![first, second];
                    if forall {
                        quant(true, vec![v1, v2], bin(fol::BinaryConnective::Implication, conj_all(parts, true), body))
                    } else {
                        let mut parts = parts;
                        parts.push(body);
                        quant(false, vec![v1, v2], conj_all(parts, flips & 4 == 0))
                    }
                });
            prop_oneof![
                2 => inner.clone().prop_map(not),
                5 => (connective(), inner.clone(), inner.clone()).prop_map(|(c, l, r)| bin(c, l, r)),
                4 => guarded,
                2 => domain_shape,
                1 => equivalence_shape,
                1 => transitive_shape,
                1 => (any::<bool>(), vec(variable(&cfg2), 1..=2), inner)
                    .prop_map(|(fa, vs, f)| quant(fa, vs, f)),
            ]
        })
        .boxed()
}
