//! Generators for target-language terms, formulas and interpretations (construction, not rejection).
use crate::dom::{Interp, Sort, Val};
use crate::ir::{self, Signature, VarId};
use anthem::syntax_tree::fol::sigma_0 as fol;
use proptest::collection::vec;
use proptest::prelude::*;
use proptest::sample::select;
use std::collections::BTreeSet;

#[derive(Clone, Debug)]
pub struct FolCfg {
    pub preds: Vec<(String, usize)>,
    pub gvars: Vec<String>,
    pub ivars: Vec<String>,
    pub svars: Vec<String>,
    pub syms: Vec<String>,
    pub fcs: Vec<(String, Sort)>,
    pub num_lo: isize,
    pub num_hi: isize,
    pub depth: u32,
    pub max_guards: usize,
    pub term_depth: u32,
}

impl FolCfg {
    pub fn small() -> FolCfg {
        FolCfg {
            preds: vec![("p".into(), 1), ("q".into(), 1), ("r".into(), 2), ("s".into(), 0)],
            gvars: vec!["X".into(), "Y".into(), "Z".into()],
            ivars: vec!["X".into(), "N".into(), "I".into()],
            svars: vec!["S".into(), "X".into()],
            syms: vec!["a".into(), "b".into()],
            fcs: vec![("c".into(), Sort::G), ("n".into(), Sort::I), ("k".into(), Sort::S)],
            num_lo: -2,
            num_hi: 3,
            depth: 4,
            max_guards: 3,
            term_depth: 2,
        }
    }
}

pub fn s(x: &str) -> String {
    x.to_string()
}

pub fn int_term(cfg: &FolCfg) -> BoxedStrategy<fol::IntegerTerm> {
    let mut leaves: Vec<BoxedStrategy<fol::IntegerTerm>> = vec![
        (cfg.num_lo..=cfg.num_hi)
            .prop_map(fol::IntegerTerm::Numeral)
            .boxed(),
    ];
    if !cfg.ivars.is_empty() {
        leaves.push(
            select(cfg.ivars.clone())
                .prop_map(fol::IntegerTerm::Variable)
                .boxed(),
        );
    }
    let ifcs: Vec<String> = cfg
        .fcs
        .iter()
        .filter(|f| f.1 == Sort::I)
        .map(|f| f.0.clone())
        .collect();
    if !ifcs.is_empty() {
        leaves.push(
            select(ifcs)
                .prop_map(fol::IntegerTerm::FunctionConstant)
                .boxed(),
        );
    }
    let leaf = proptest::strategy::Union::new(leaves);
    leaf.prop_recursive(cfg.term_depth, 8, 2, |inner| {
        prop_oneof![
            1 => inner.clone().prop_map(|a| fol::IntegerTerm::UnaryOperation {
                op: fol::UnaryOperator::Negative,
                arg: Box::new(a)
            }),
            3 => (
                select(vec![
                    fol::BinaryOperator::Add,
                    fol::BinaryOperator::Subtract,
                    fol::BinaryOperator::Multiply
                ]),
                inner.clone(),
                inner
            )
                .prop_map(|(op, l, r)| fol::IntegerTerm::BinaryOperation {
                    op,
                    lhs: Box::new(l),
                    rhs: Box::new(r)
                }),
        ]
    })
    .boxed()
}

pub fn sym_term(cfg: &FolCfg) -> BoxedStrategy<fol::SymbolicTerm> {
    let mut leaves: Vec<BoxedStrategy<fol::SymbolicTerm>> =
        vec![select(cfg.syms.clone()).prop_map(fol::SymbolicTerm::Symbol).boxed()];
    if !cfg.svars.is_empty() {
        leaves.push(
            select(cfg.svars.clone())
                .prop_map(fol::SymbolicTerm::Variable)
                .boxed(),
        );
    }
    let sfcs: Vec<String> = cfg
        .fcs
        .iter()
        .filter(|f| f.1 == Sort::S)
        .map(|f| f.0.clone())
        .collect();
    if !sfcs.is_empty() {
        leaves.push(
            select(sfcs)
                .prop_map(fol::SymbolicTerm::FunctionConstant)
                .boxed(),
        );
    }
    proptest::strategy::Union::new(leaves).boxed()
}

pub fn gen_term(cfg: &FolCfg) -> BoxedStrategy<fol::GeneralTerm> {
    let mut alts: Vec<(u32, BoxedStrategy<fol::GeneralTerm>)> = vec![
        (1, Just(fol::GeneralTerm::Infimum).boxed()),
        (1, Just(fol::GeneralTerm::Supremum).boxed()),
        (6, int_term(cfg).prop_map(fol::GeneralTerm::IntegerTerm).boxed()),
        (3, sym_term(cfg).prop_map(fol::GeneralTerm::SymbolicTerm).boxed()),
    ];
    if !cfg.gvars.is_empty() {
        alts.push((
            6,
            select(cfg.gvars.clone())
                .prop_map(fol::GeneralTerm::Variable)
                .boxed(),
        ));
    }
    let gfcs: Vec<String> = cfg
        .fcs
        .iter()
        .filter(|f| f.1 == Sort::G)
        .map(|f| f.0.clone())
        .collect();
    if !gfcs.is_empty() {
        alts.push((
            1,
            select(gfcs)
                .prop_map(fol::GeneralTerm::FunctionConstant)
                .boxed(),
        ));
    }
    proptest::strategy::Union::new_weighted(alts).boxed()
}

pub fn relation() -> BoxedStrategy<fol::Relation> {
    select(vec![
        fol::Relation::Equal,
        fol::Relation::NotEqual,
        fol::Relation::Less,
        fol::Relation::LessEqual,
        fol::Relation::Greater,
        fol::Relation::GreaterEqual,
    ])
    .boxed()
}

pub fn atom(cfg: &FolCfg) -> BoxedStrategy<fol::Atom> {
    let cfg2 = cfg.clone();
    select(cfg.preds.clone())
        .prop_flat_map(move |(name, arity)| {
            vec(gen_term(&cfg2), arity).prop_map(move |terms| fol::Atom {
                predicate_symbol: name.clone(),
                terms,
            })
        })
        .boxed()
}

pub fn comparison(cfg: &FolCfg) -> BoxedStrategy<fol::Comparison> {
    (
        gen_term(cfg),
        vec((relation(), gen_term(cfg)), 1..=cfg.max_guards),
    )
        .prop_map(|(term, gs)| fol::Comparison {
            term,
            guards: gs
                .into_iter()
                .map(|(relation, term)| fol::Guard { relation, term })
                .collect(),
        })
        .boxed()
}

pub fn variable(cfg: &FolCfg) -> BoxedStrategy<fol::Variable> {
    let mut alts: Vec<(u32, BoxedStrategy<fol::Variable>)> = vec![];
    if !cfg.gvars.is_empty() {
        alts.push((
            4,
            select(cfg.gvars.clone())
                .prop_map(|name| fol::Variable {
                    name,
                    sort: fol::Sort::General,
                })
                .boxed(),
        ));
    }
    if !cfg.ivars.is_empty() {
        alts.push((
            3,
            select(cfg.ivars.clone())
                .prop_map(|name| fol::Variable {
                    name,
                    sort: fol::Sort::Integer,
                })
                .boxed(),
        ));
    }
    if !cfg.svars.is_empty() {
        alts.push((
            1,
            select(cfg.svars.clone())
                .prop_map(|name| fol::Variable {
                    name,
                    sort: fol::Sort::Symbol,
                })
                .boxed(),
        ));
    }
    proptest::strategy::Union::new_weighted(alts).boxed()
}

pub fn atomic(cfg: &FolCfg) -> BoxedStrategy<fol::Formula> {
    prop_oneof![
        1 => Just(fol::AtomicFormula::Truth),
        1 => Just(fol::AtomicFormula::Falsity),
        8 => atom(cfg).prop_map(fol::AtomicFormula::Atom),
        6 => comparison(cfg).prop_map(fol::AtomicFormula::Comparison),
    ]
    .prop_map(fol::Formula::AtomicFormula)
    .boxed()
}

pub fn connective() -> BoxedStrategy<fol::BinaryConnective> {
    prop_oneof![
        3 => Just(fol::BinaryConnective::Conjunction),
        3 => Just(fol::BinaryConnective::Disjunction),
        3 => Just(fol::BinaryConnective::Implication),
        1 => Just(fol::BinaryConnective::ReverseImplication),
        2 => Just(fol::BinaryConnective::Equivalence),
    ]
    .boxed()
}

pub fn not(f: fol::Formula) -> fol::Formula {
    fol::Formula::UnaryFormula {
        connective: fol::UnaryConnective::Negation,
        formula: Box::new(f),
    }
}

pub fn bin(c: fol::BinaryConnective, l: fol::Formula, r: fol::Formula) -> fol::Formula {
    fol::Formula::BinaryFormula {
        connective: c,
        lhs: Box::new(l),
        rhs: Box::new(r),
    }
}

pub fn quant(forall: bool, variables: Vec<fol::Variable>, f: fol::Formula) -> fol::Formula {
    fol::Formula::QuantifiedFormula {
        quantification: fol::Quantification {
            quantifier: if forall {
                fol::Quantifier::Forall
            } else {
                fol::Quantifier::Exists
            },
            variables,
        },
        formula: Box::new(f),
    }
}

/// arbitrary formulas with unguarded quantifiers (window-mode properties)
pub fn formula(cfg: &FolCfg) -> BoxedStrategy<fol::Formula> {
    let cfg2 = cfg.clone();
    atomic(cfg)
        .prop_recursive(cfg.depth, 24, 3, move |inner| {
            prop_oneof![
                2 => inner.clone().prop_map(not),
                5 => (connective(), inner.clone(), inner.clone()).prop_map(|(c, l, r)| bin(c, l, r)),
                3 => (any::<bool>(), vec(variable(&cfg2), 1..=3), inner)
                    .prop_map(|(fa, vs, f)| quant(fa, vs, f)),
            ]
        })
        .boxed()
}

// ---------------------------------------------------------------------------------------
// interpretations

/// the active values of a case: constants of the formulas, neighbours, symbols (one extra), #inf, #sup
pub fn value_pool(sig: &Signature, extra_syms: &[&str]) -> Vec<Val> {
    let mut ints: BTreeSet<i128> = BTreeSet::new();
    for n in &sig.nums {
        for d in -1..=1 {
            ints.insert(n + d);
        }
    }
    for n in 0..=2 {
        ints.insert(n);
    }
    let nums: Vec<i128> = sig.nums.iter().cloned().collect();
    for (i, a) in nums.iter().enumerate().take(4) {
        for b in nums.iter().skip(i).take(4) {
            if let Some(s) = a.checked_add(*b) {
                ints.insert(s);
            }
            if let Some(s) = a.checked_mul(*b) {
                ints.insert(s);
            }
        }
    }
    let mut pool: Vec<Val> = vec![Val::Inf];
    pool.extend(ints.into_iter().filter(|n| n.abs() < 1_000_000).take(14).map(Val::Int));
    let mut syms: BTreeSet<String> = sig.syms.iter().cloned().collect();
    for s in extra_syms {
        syms.insert(s.to_string());
    }
    pool.extend(syms.into_iter().take(4).map(Val::Sym));
    pool.push(Val::Sup);
    pool
}

/// raw material for an interpretation: per predicate a list of index tuples into the pool,
/// per function constant an index; resolved against a pool by `build_interp`
#[derive(Clone, Debug)]
pub struct RawInterp {
    pub tuples: Vec<Vec<Vec<u16>>>,
    pub fcs: Vec<u16>,
    /// which tuples of T are also in H
    pub in_h: Vec<Vec<bool>>,
}

pub fn raw_interp(npreds: usize, nfcs: usize, max_arity: usize, max_tuples: usize) -> BoxedStrategy<RawInterp> {
    (
        vec(
            vec(vec(any::<u16>(), max_arity.max(1)), 0..=max_tuples),
            npreds,
        ),
        vec(any::<u16>(), nfcs),
        vec(vec(any::<bool>(), max_tuples), npreds),
    )
        .prop_map(|(tuples, fcs, in_h)| RawInterp { tuples, fcs, in_h })
        .boxed()
}

pub fn idx(i: u16, len: usize) -> usize {
    (i as usize * len) >> 16
}

/// (H, T) with H ⊆ T
pub fn build_interp(
    raw: &RawInterp,
    preds: &[(String, usize)],
    fcs: &[VarId],
    pool: &[Val],
) -> (Interp, Interp) {
    let mut t = Interp::default();
    let mut h = Interp::default();
    for (pi, (name, arity)) in preds.iter().enumerate() {
        t.preds.entry((name.clone(), *arity)).or_default();
        h.preds.entry((name.clone(), *arity)).or_default();
        let Some(ts) = raw.tuples.get(pi) else { continue };
        for (ti, tuple) in ts.iter().enumerate() {
            let vals: Vec<Val> = (0..*arity)
                .map(|k| pool[idx(tuple[k % tuple.len()], pool.len())].clone())
                .collect();
            if raw.in_h.get(pi).and_then(|v| v.get(ti)).copied().unwrap_or(false) {
                h.insert(name, vals.clone());
            }
            t.insert(name, vals);
        }
    }
    for (fi, (name, sort)) in fcs.iter().enumerate() {
        let cands: Vec<&Val> = pool.iter().filter(|v| sort.admits(v)).collect();
        let v = if cands.is_empty() {
            match sort {
                Sort::I => Val::Int(0),
                Sort::S => Val::Sym("a".into()),
                Sort::G => Val::Inf,
            }
        } else {
            cands[idx(raw.fcs.get(fi).copied().unwrap_or(0), cands.len())].clone()
        };
        t.fcs.insert((name.clone(), *sort), v.clone());
        h.fcs.insert((name.clone(), *sort), v);
    }
    (h, t)
}

/// environment for free variables, from the pool
pub fn build_env(free: &BTreeSet<VarId>, choices: &[u16], pool: &[Val]) -> Vec<(VarId, Val)> {
    free.iter()
        .enumerate()
        .map(|(i, v)| {
            let cands: Vec<&Val> = pool.iter().filter(|x| v.1.admits(x)).collect();
            let c = choices.get(i % choices.len().max(1)).copied().unwrap_or(0);
            let val = if cands.is_empty() {
                match v.1 {
                    Sort::I => Val::Int(0),
                    Sort::S => Val::Sym("a".into()),
                    Sort::G => Val::Inf,
                }
            } else {
                cands[idx(c, cands.len())].clone()
            };
            (v.clone(), val)
        })
        .collect()
}

pub fn signature_of(fs: &[&fol::Formula]) -> (Signature, Vec<ir::Fm>) {
    let lowered: Vec<ir::Fm> = fs.iter().map(|f| ir::lower(f)).collect();
    let refs: Vec<&ir::Fm> = lowered.iter().collect();
    (Signature::of(&refs), lowered)
}
