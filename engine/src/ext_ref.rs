//! Reference reading of external-equivalence tasks: what it means for an interpretation to
//! witness a difference in external behaviour (absolute reading of the public vocabulary:
//! a declared output predicate that does not occur in a program is empty in its stable models).
use crate::asp_ref;
use crate::dom::{Interp, Sort, Val};
use crate::eval::{Env, Ev, World};
use crate::generators::task::{Chooser, ExternalTask, Pred};
use crate::ir::{self, Fm, IT, Tm};
use anthem::syntax_tree::asp::mini_gringo as asp;
use anthem::syntax_tree::fol::sigma_0 as fol;
use std::collections::BTreeMap;

pub fn sort_of(s: fol::Sort) -> Sort {
    ir::sort_of(s)
}

/// replace placeholder symbols by their values in a program
pub fn substitute_placeholders(p: &asp::Program, values: &BTreeMap<String, Val>) -> asp::Program {
    fn term(t: &asp::Term, values: &BTreeMap<String, Val>) -> asp::Term {
        match t {
            asp::Term::PrecomputedTerm(asp::PrecomputedTerm::Symbol(s)) => match values.get(s) {
                Some(Val::Int(n)) => asp::Term::PrecomputedTerm(asp::PrecomputedTerm::Numeral(*n as isize)),
                Some(Val::Sym(x)) => asp::Term::PrecomputedTerm(asp::PrecomputedTerm::Symbol(x.clone())),
                Some(Val::Inf) => asp::Term::PrecomputedTerm(asp::PrecomputedTerm::Infimum),
                Some(Val::Sup) => asp::Term::PrecomputedTerm(asp::PrecomputedTerm::Supremum),
                None => t.clone(),
            },
            asp::Term::PrecomputedTerm(_) | asp::Term::Variable(_) => t.clone(),
            asp::Term::UnaryOperation { op, arg } => asp::Term::UnaryOperation {
                op: *op,
                arg: Box::new(term(arg, values)),
            },
            asp::Term::BinaryOperation { op, lhs, rhs } => asp::Term::BinaryOperation {
                op: *op,
                lhs: Box::new(term(lhs, values)),
                rhs: Box::new(term(rhs, values)),
            },
        }
    }
    let atom = |a: &asp::Atom| asp::Atom {
        predicate_symbol: a.predicate_symbol.clone(),
        terms: a.terms.iter().map(|t| term(t, values)).collect(),
    };
    asp::Program {
        rules: p
            .rules
            .iter()
            .map(|r| asp::Rule {
                head: match &r.head {
                    asp::Head::Basic(a) => asp::Head::Basic(atom(a)),
                    asp::Head::Choice(a) => asp::Head::Choice(atom(a)),
                    asp::Head::Falsity => asp::Head::Falsity,
                },
                body: asp::Body {
                    formulas: r
                        .body
                        .formulas
                        .iter()
                        .map(|f| match f {
                            asp::AtomicFormula::Literal(l) => asp::AtomicFormula::Literal(asp::Literal {
                                sign: l.sign.clone(),
                                atom: atom(&l.atom),
                            }),
                            asp::AtomicFormula::Comparison(c) => asp::AtomicFormula::Comparison(asp::Comparison {
                                relation: c.relation,
                                lhs: term(&c.lhs, values),
                                rhs: term(&c.rhs, values),
                            }),
                        })
                        .collect(),
                },
            })
            .collect(),
    }
}

/// lower a user formula, reading placeholder symbols as function constants of their sort
pub fn lower_with_placeholders(f: &fol::Formula, placeholders: &[(String, fol::Sort)]) -> Fm {
    fn tm(t: Tm, ph: &[(String, fol::Sort)]) -> Tm {
        match t {
            Tm::SymC(s) => match ph.iter().find(|p| p.0 == s) {
                Some((n, fol::Sort::General)) => Tm::Fc(n.clone()),
                Some((n, fol::Sort::Integer)) => Tm::Int(IT::Fc(n.clone())),
                Some((n, fol::Sort::Symbol)) => Tm::SymFc(n.clone()),
                None => Tm::SymC(s),
            },
            other => other,
        }
    }
    fn go(f: Fm, ph: &[(String, fol::Sort)]) -> Fm {
        match f {
            Fm::Atom(p, ts) => Fm::Atom(p, ts.into_iter().map(|t| tm(t, ph)).collect()),
            Fm::Cmp(t, gs) => Fm::Cmp(tm(t, ph), gs.into_iter().map(|(r, t)| (r, tm(t, ph))).collect()),
            Fm::Not(g) => Fm::Not(Box::new(go(*g, ph))),
            Fm::Bin(c, a, b) => Fm::Bin(c, Box::new(go(*a, ph)), Box::new(go(*b, ph))),
            Fm::Q(fa, vs, g) => Fm::Q(fa, vs, Box::new(go(*g, ph))),
            other => other,
        }
    }
    go(ir::lower(f), placeholders)
}

/// the names the private predicates of the program under verification have in the emitted
/// problems, read off the problems themselves: the formula `completed_definition_of_<p>_<n>`
/// that comes last among the axioms is the one of the program under verification, and its head
/// predicate is the emitted name. Falls back to the documented rule (`<p>_p` on a clash).
pub type RightNames = BTreeMap<Pred, String>;

pub fn documented_right_name(task: &ExternalTask, p: &Pred) -> String {
    let clash = task.left_program.is_some() && task.names.left_private.iter().any(|q| *q == *p);
    if clash { format!("{}_p", p.0) } else { p.0.clone() }
}

pub fn discover_right_names(task: &ExternalTask, problems: &[anthem::verif::ProblemData]) -> RightNames {
    let mut map = RightNames::new();
    for p in &task.names.right_private {
        let mut found: Option<String> = None;
        if let Some(problem) = problems.first() {
            let wanted = format!("completed_definition_of_{}_{}", p.0, p.1);
            for f in problem.formulas.iter().filter(|f| !f.conjecture && f.name.ends_with(&wanted)) {
                if let Some((head, _)) = crate::checks::c04::definition_head(&f.formula) {
                    found = Some(head);
                }
            }
        }
        map.insert(p.clone(), found.unwrap_or_else(|| documented_right_name(task, p)));
    }
    map
}

/// distinct source predicates must have distinct names in the problems
pub fn name_collision(task: &ExternalTask, names: &RightNames) -> Option<String> {
    let mut seen: BTreeMap<(String, usize), String> = BTreeMap::new();
    let mut add = |name: String, arity: usize, what: String| -> Option<String> {
        if let Some(prev) = seen.get(&(name.clone(), arity)) {
            if *prev != what {
                return Some(format!("{prev} and {what} are both called {name}/{arity} in the problems"));
            }
        }
        seen.insert((name, arity), what);
        None
    };
    for p in task.names.inputs.iter().chain(task.names.outputs.iter()) {
        if let Some(e) = add(p.0.clone(), p.1, format!("public predicate {}/{}", p.0, p.1)) {
            return Some(e);
        }
    }
    if task.left_program.is_some() {
        for p in &task.names.left_private {
            if let Some(e) = add(p.0.clone(), p.1, format!("private predicate {}/{} of the first program", p.0, p.1)) {
                return Some(e);
            }
        }
    }
    for p in &task.names.right_private {
        let n = names.get(p).cloned().unwrap_or_else(|| p.0.clone());
        if let Some(e) = add(n, p.1, format!("private predicate {}/{} of the program under verification", p.0, p.1)) {
            return Some(e);
        }
    }
    None
}

fn restrict_rename(j: &Interp, preds: &[(Pred, String)]) -> Interp {
    // (source predicate, name in J)
    let mut out = Interp::default();
    out.fcs = j.fcs.clone();
    for ((name, arity), jname) in preds {
        let ext = j.ext(jname, *arity).clone();
        out.preds.insert((name.clone(), *arity), ext);
    }
    out
}

fn private_rules(p: &asp::Program, private: &[Pred]) -> asp::Program {
    asp::Program {
        rules: p
            .rules
            .iter()
            .filter(|r| r.head.predicate().is_some_and(|h| private.iter().any(|q| q.0 == h.symbol && q.1 == h.arity)))
            .cloned()
            .collect(),
    }
}

/// the public predicates whose extents matter: inputs, and the declared outputs that occur in
/// the task at all (an output predicate mentioned nowhere is vacuous on both sides)
pub fn relevant_public(task: &ExternalTask) -> Vec<Pred> {
    let mut occurring: Vec<Pred> = task.right.predicates().into_iter().map(|p| (p.symbol, p.arity)).collect();
    if let Some(p) = &task.left_program {
        occurring.extend(p.predicates().into_iter().map(|p| (p.symbol, p.arity)));
    }
    if let Some(s) = &task.left_spec {
        occurring.extend(s.predicates().into_iter().map(|p| (p.symbol, p.arity)));
    }
    task.names
        .inputs
        .iter()
        .cloned()
        .chain(task.names.outputs.iter().filter(|o| occurring.contains(o)).cloned())
        .collect()
}

pub struct SideRef<'a> {
    pub program: &'a asp::Program,
    pub private: Vec<(Pred, String)>,
}

fn k_and3(a: Option<bool>, b: Option<bool>) -> Option<bool> {
    match (a, b) {
        (Some(false), _) | (_, Some(false)) => Some(false),
        (Some(true), Some(true)) => Some(true),
        _ => None,
    }
}

/// J (restricted to the side's vocabulary) is a stable model of the program with J's input facts
fn stable_on_side(task: &ExternalTask, side: &SideRef, j: &Interp, values: &BTreeMap<String, Val>) -> Option<bool> {
    let program = substitute_placeholders(side.program, values);
    let mut voc: Vec<(Pred, String)> = vec![];
    for p in relevant_public(task) {
        voc.push((p.clone(), p.0.clone()));
    }
    voc.extend(side.private.iter().cloned());
    let jj = restrict_rename(j, &voc);
    let inputs: Vec<(Pred, String)> = task.names.inputs.iter().map(|p| (p.clone(), p.0.clone())).collect();
    let facts = restrict_rename(j, &inputs);
    asp_ref::is_stable(&program, &facts, &jj)
}

/// J's extents of the side's private predicates are the ones determined by J's other extents
fn private_supported(task: &ExternalTask, side: &SideRef, j: &Interp, values: &BTreeMap<String, Val>) -> Option<bool> {
    let private: Vec<Pred> = side.private.iter().map(|x| x.0.clone()).collect();
    let program = substitute_placeholders(&private_rules(side.program, &private), values);
    let mut open: Vec<(Pred, String)> = vec![];
    for p in relevant_public(task) {
        open.push((p.clone(), p.0.clone()));
    }
    let facts = restrict_rename(j, &open);
    let mut voc = open.clone();
    voc.extend(side.private.iter().cloned());
    let jj = restrict_rename(j, &voc);
    asp_ref::is_stable(&program, &facts, &jj)
}

fn formulas_hold(fs: &[Fm], j: &Interp, pool: &[Val]) -> Option<bool> {
    let mut acc = Some(true);
    for f in fs {
        let ev = Ev::classical(j, pool, true).with_budget(200_000);
        acc = k_and3(acc, ev.sat(f, &mut Env::new(), World::T));
        if acc == Some(false) {
            break;
        }
    }
    acc
}

pub fn ug_assumptions(task: &ExternalTask) -> Vec<Fm> {
    task.user_guide
        .formulas()
        .iter()
        .filter(|a| a.role == fol::Role::Assumption)
        .map(|a| lower_with_placeholders(&a.formula, &task.names.placeholders))
        .collect()
}

pub fn left_side(task: &ExternalTask) -> Option<SideRef<'_>> {
    task.left_program.as_ref().map(|p| SideRef {
        program: p,
        private: task.names.left_private.iter().map(|q| (q.clone(), q.0.clone())).collect(),
    })
}

pub fn right_side<'a>(task: &'a ExternalTask, names: &RightNames) -> SideRef<'a> {
    SideRef {
        program: &task.right,
        private: task
            .names
            .right_private
            .iter()
            .map(|q| (q.clone(), names.get(q).cloned().unwrap_or_else(|| q.0.clone())))
            .collect(),
    }
}

/// does J witness a difference in external behaviour in the given direction?
pub fn ref_refutes(task: &ExternalTask, names: &RightNames, j: &Interp, forward: bool, pool: &[Val]) -> Option<bool> {
    let values: BTreeMap<String, Val> = task
        .names
        .placeholders
        .iter()
        .map(|(n, s)| (n.clone(), j.fcs.get(&(n.clone(), sort_of(*s))).cloned().unwrap_or(Val::Int(0))))
        .collect();
    let ug = formulas_hold(&ug_assumptions(task), j, pool);
    if ug == Some(false) {
        return Some(false);
    }
    let right = right_side(task, names);
    match left_side(task) {
        Some(left) => {
            let (ax, cj) = if forward { (&left, &right) } else { (&right, &left) };
            let a = stable_on_side(task, ax, j, &values);
            if a == Some(false) {
                return Some(false);
            }
            let s = private_supported(task, cj, j, &values);
            if s == Some(false) {
                return Some(false);
            }
            let c = stable_on_side(task, cj, j, &values).map(|b| !b);
            k_and3(k_and3(ug, a), k_and3(s, c))
        }
        None => {
            let spec = task.left_spec.as_ref().unwrap();
            let lower = |a: &fol::AnnotatedFormula| lower_with_placeholders(&a.formula, &task.names.placeholders);
            if forward {
                let premises: Vec<Fm> = spec
                    .formulas
                    .iter()
                    .filter(|a| match a.role {
                        fol::Role::Assumption | fol::Role::Spec => {
                            matches!(a.direction, fol::Direction::Universal | fol::Direction::Forward)
                        }
                        _ => false,
                    })
                    .map(lower)
                    .collect();
                let a = formulas_hold(&premises, j, pool);
                if a == Some(false) {
                    return Some(false);
                }
                let s = private_supported(task, &right, j, &values);
                if s == Some(false) {
                    return Some(false);
                }
                let c = stable_on_side(task, &right, j, &values).map(|b| !b);
                k_and3(k_and3(ug, a), k_and3(s, c))
            } else {
                let assumptions: Vec<Fm> = spec
                    .formulas
                    .iter()
                    .filter(|a| a.role == fol::Role::Assumption && a.direction == fol::Direction::Universal)
                    .map(lower)
                    .collect();
                let a = formulas_hold(&assumptions, j, pool);
                if a == Some(false) {
                    return Some(false);
                }
                let st = stable_on_side(task, &right, j, &values);
                if st == Some(false) {
                    return Some(false);
                }
                let conclusions: Vec<Fm> = spec
                    .formulas
                    .iter()
                    .filter(|a| a.role == fol::Role::Spec && matches!(a.direction, fol::Direction::Universal | fol::Direction::Backward))
                    .map(lower)
                    .collect();
                let c = formulas_hold(&conclusions, j, pool).map(|b| !b);
                k_and3(k_and3(ug, a), k_and3(st, c))
            }
        }
    }
}

// ---------------------------------------------------------------------------------------
// guided interpretations

/// all predicates of the emitted problems: inputs, outputs, left private, right private (emitted names)
pub fn emitted_predicates(task: &ExternalTask, names: &RightNames) -> Vec<Pred> {
    let mut v: Vec<Pred> = task.names.inputs.iter().chain(task.names.outputs.iter()).cloned().collect();
    if task.left_program.is_some() {
        v.extend(task.names.left_private.iter().cloned());
    }
    for q in &task.names.right_private {
        let n = names.get(q).cloned().unwrap_or_else(|| q.0.clone());
        if !v.iter().any(|p| p.0 == n && p.1 == q.1) {
            v.push((n, q.1));
        }
    }
    v
}

/// an interpretation likely to satisfy the axioms of a direction: a stable model of the axiom
/// side for random input facts, the other side's private extents derived from it, optionally
/// perturbed in one atom
pub fn guided_interp(task: &ExternalTask, names: &RightNames, c: &mut Chooser, pool: &[Val]) -> Interp {
    let mut j = Interp::default();
    let small: Vec<&Val> = pool.iter().filter(|v| !matches!(v, Val::Int(n) if n.abs() > 6)).collect();
    let assumptions = ug_assumptions(task);
    // placeholder values and input facts, preferring ones that satisfy the user-guide assumptions
    for attempt in 0..6 {
        j = Interp::default();
        for (n, s) in &task.names.placeholders {
            let sort = sort_of(*s);
            let cands: Vec<&Val> = pool.iter().filter(|v| sort.admits(v)).collect();
            let v = if cands.is_empty() { Val::Int(0) } else { (*c.pick(&cands)).clone() };
            j.fcs.insert((n.clone(), sort), v);
        }
        for p in emitted_predicates(task, names) {
            j.preds.entry(p).or_default();
        }
        for p in &task.names.inputs {
            let n = c.next(4);
            for _ in 0..n {
                let tuple: Vec<Val> = (0..p.1).map(|_| (*c.pick(&small)).clone()).collect();
                j.insert(&p.0, tuple);
            }
        }
        if attempt == 5 || formulas_hold(&assumptions, &j, pool) == Some(true) {
            break;
        }
        // drop the facts that violate the assumptions one at a time
        let atoms = j.atoms();
        for (k, t) in atoms {
            if formulas_hold(&assumptions, &j, pool) == Some(true) {
                break;
            }
            if let Some(e) = j.preds.get_mut(&k) {
                e.remove(&t);
            }
        }
        if formulas_hold(&assumptions, &j, pool) == Some(true) {
            break;
        }
    }
    let values: BTreeMap<String, Val> = task
        .names
        .placeholders
        .iter()
        .map(|(n, s)| (n.clone(), j.fcs[&(n.clone(), sort_of(*s))].clone()))
        .collect();
    let mode = c.next(4);
    if mode == 0 {
        // fully random extents
        for p in emitted_predicates(task, names) {
            if task.names.inputs.contains(&p) {
                continue;
            }
            let n = c.next(3);
            for _ in 0..n {
                let tuple: Vec<Val> = (0..p.1).map(|_| (*c.pick(&small)).clone()).collect();
                j.insert(&p.0, tuple);
            }
        }
        return j;
    }
    let inputs: Vec<(Pred, String)> = task.names.inputs.iter().map(|p| (p.clone(), p.0.clone())).collect();
    let facts = restrict_rename(&j, &inputs);
    let right = right_side(task, names);
    let left = left_side(task);
    // which side provides the stable model
    let from_left = left.is_some() && c.flag(1, 2);
    let (model_side, other_side): (&SideRef, Option<&SideRef>) = if from_left {
        (left.as_ref().unwrap(), Some(&right))
    } else {
        (&right, left.as_ref())
    };
    let program = substitute_placeholders(model_side.program, &values);
    if let Some(models) = asp_ref::stable_models(&program, &facts, 9) {
        if !models.is_empty() {
            let m = c.pick(&models).clone();
            for ((name, arity), ext) in &m.preds {
                let jname = model_side
                    .private
                    .iter()
                    .find(|(p, _)| p.0 == *name && p.1 == *arity)
                    .map(|(_, n)| n.clone())
                    .unwrap_or_else(|| name.clone());
                j.preds.entry((jname, *arity)).or_default().extend(ext.iter().cloned());
            }
        }
    }
    // derive the other side's private extents from J's public extents
    if let Some(other) = other_side {
        let private: Vec<Pred> = other.private.iter().map(|x| x.0.clone()).collect();
        let pr = substitute_placeholders(&private_rules(other.program, &private), &values);
        let mut open: Vec<(Pred, String)> = vec![];
        for p in task.names.inputs.iter().chain(task.names.outputs.iter()) {
            open.push((p.clone(), p.0.clone()));
        }
        let f2 = restrict_rename(&j, &open);
        if let Some(models) = asp_ref::stable_models(&pr, &f2, 9) {
            if let Some(m) = models.first() {
                for (p, jname) in &other.private {
                    let ext = m.ext(&p.0, p.1).clone();
                    j.preds.insert((jname.clone(), p.1), ext);
                }
            }
        }
    }
    if mode == 3 {
        // perturb one atom of a non-input predicate
        let cands: Vec<Pred> = emitted_predicates(task, names).into_iter().filter(|p| !task.names.inputs.contains(p)).collect();
        if !cands.is_empty() {
            let p = c.pick(&cands).clone();
            let tuple: Vec<Val> = (0..p.1).map(|_| (*c.pick(&small)).clone()).collect();
            let ext = j.preds.entry(p).or_default();
            if !ext.remove(&tuple) {
                ext.insert(tuple);
            }
        }
    }
    j
}
